"""Client-side response stream reader (RFC 9112 section 6.3 message body length rules), independent of
waitress.  Works on bytes and on wsx SymBytes.

read_responses(wire, methods) -> list of dict(status, version, headers, body, framing, complete, head_ok)
  methods: request methods in order (a HEAD response has no body)
  framing: "none" (1xx/204/304/HEAD), "chunked", "length", "close"
  complete: the announced delimitation is satisfied by the bytes on the wire
"""
from refs.http_req import _b, c_eq, c_in, c_rng, cells_of, dec_value, hex_value, all_of, c_hex, seq_eq_ci, strip_ows
from wsx.core import SymInt
from wsx.data import SymBytes, SymSeq


def _D(e):
    return bool(_b(e))


def _find(S, pat, start=0):
    return S.find(pat, start)


def read_responses(wire, methods, nmax=8):
    out = []
    o = 0
    n = len(wire)
    mi = 0
    for _ in range(nmax):
        if o >= n:
            break
        p = _find(wire, b"\r\n\r\n", o)
        if p < 0:
            out.append(dict(status=None, framing="broken", complete=False, head_ok=False, raw=wire[o:], headers=[], body=b"", version=None, reason=None))
            break
        head = wire[o:p]
        o = p + 4
        lines = head.split(b"\r\n")
        sl = lines[0]
        head_ok = True
        slc = cells_of(sl)
        # status-line = HTTP-version SP status-code SP [reason]
        ok = len(slc) >= 12 and _D(all_of(slc[9:12], lambda c: _b(c_rng(c, 48, 57)))) and sl[:5] == b"HTTP/" and _D(c_eq(slc[8], 32))
        if not ok:
            out.append(dict(status=None, framing="broken", complete=False, head_ok=False, raw=head, headers=[], body=b"", version=None, reason=None))
            break
        code = dec_value(slc[9:12])
        if isinstance(code, SymInt):
            code = code.__index__()
        version = sl[5:8]
        reason = sl[13:] if len(slc) > 12 else b""
        headers = []
        for ln in lines[1:]:
            c = ln.find(b":")
            if c < 0:
                head_ok = False
                continue
            headers.append((ln[:c], strip_ows(ln[c + 1:])))
            if _D(_b(any_cr_lf(ln))):
                head_ok = False
        interim = 100 <= code < 200
        method = methods[mi] if mi < len(methods) else "GET"
        te = [v for k, v in headers if _D(seq_eq_ci(cells_of(k), list(b"transfer-encoding")))]
        cl = [v for k, v in headers if _D(seq_eq_ci(cells_of(k), list(b"content-length")))]
        body = b""
        complete = True
        if interim or code in (204, 304) or method == "HEAD":
            framing = "none"
        elif te and _D(seq_eq_ci(cells_of(te[-1]), list(b"chunked"))):
            framing = "chunked"
            body_cells = []
            while True:
                q = _find(wire, b"\r\n", o)
                if q < 0:
                    complete = False
                    break
                szc = cells_of(wire[o:q])
                if not szc or not _D(all_of(szc, c_hex)):
                    complete = False
                    break
                sz = hex_value(szc)
                if isinstance(sz, SymInt):
                    if _D(sz > n):
                        complete = False
                        break
                    sz = sz.__index__()
                o = q + 2
                if sz == 0:
                    if wire[o:o + 2] == b"\r\n" if len(wire[o:o + 2]) == 2 else False:
                        o += 2
                    else:
                        complete = False
                    break
                if o + sz + 2 > n:
                    body_cells.extend(cells_of(wire[o:]))
                    o = n
                    complete = False
                    break
                body_cells.extend(cells_of(wire[o:o + sz]))
                t = wire[o + sz:o + sz + 2]
                if not _D(_b(t == b"\r\n")):
                    complete = False
                    break
                o += sz + 2
            body = SymBytes(body_cells).simplify() if body_cells else b""
        elif cl:
            framing = "length"
            vc = cells_of(cl[0])
            if len(cl) != 1 or not vc or not _D(all_of(vc, lambda c: _b(c_rng(c, 48, 57)))):
                framing = "broken"
                complete = False
            else:
                want = dec_value(vc)
                avail = n - o
                if isinstance(want, SymInt):
                    if _D(want > avail):
                        body = wire[o:]
                        o = n
                        complete = False
                        want = None
                    else:
                        want = want.__index__()
                if want is not None:
                    if want > avail:
                        body = wire[o:]
                        o = n
                        complete = False
                    else:
                        body = wire[o:o + want]
                        o += want
        else:
            framing = "close"
            body = wire[o:]
            o = n
        if not interim:
            mi += 1
        out.append(dict(status=code, version=version, reason=reason, headers=headers, body=body, framing=framing, complete=complete,
                        head_ok=head_ok, interim=interim))
        if not complete or framing == "close":
            break
    return out


def any_cr_lf(S):
    from refs.http_req import any_of
    return any_of(cells_of(S), lambda c: c_in(c, (13, 10)))


def header(resp, name):
    """values of a header (case-insensitive name) as a list"""
    return [v for k, v in resp["headers"] if _D(seq_eq_ci(cells_of(k), list(name.lower())))]


def says_close(resp):
    return any(_D(seq_eq_ci(cells_of(v), list(b"close"))) for v in header(resp, b"connection"))


def says_keepalive(resp):
    return any(_D(seq_eq_ci(cells_of(v), list(b"keep-alive"))) for v in header(resp, b"connection"))
