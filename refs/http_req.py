"""Strict RFC 9112 request-stream reference (DESIGN.md appendix A.1).

Written from the RFC text, independent of waitress.  Works on `bytes` and on wsx SymBytes
(concrete length, symbolic cells): structure decisions fork through SymBool, character-class
predicates are built as one formula per token (no fork per byte).

parse_stream(S, cfg) -> list of events:
  ("req", method, target, is11, fields, body, close)   fields: ordered list of (NAME, value) with NAME
                                                      upper-cased, '-' -> '_'; close: True / False / None (either)
  ("err", codes)        refused: exactly one error response whose status is in `codes`, then close
  ("incomplete",)       more bytes needed; nothing may have been produced for this message
  ("any",)              convention-dependent from here on: nothing is demanded
The list ends after err / incomplete / any, after a req with close is True, or when S is exhausted.
"""
from wsx.core import SymBool, SymInt, s_and, s_not, s_or, mkbool, tobool
from wsx.data import SymBytes, SymSeq, lift

try:
    import z3
except ImportError:  # pragma: no cover
    z3 = None

WS0 = (32, 9, 11, 12, 13, 10)
TCHAR = tuple(sorted(set(b"!#$%&'*+-.^_`|~0123456789ABCDEFGHIJKLMNOPQRSTUVWXYZabcdefghijklmnopqrstuvwxyz")))
DIGITS = tuple(range(48, 58))
HEXDIGS = DIGITS + tuple(range(65, 71)) + tuple(range(97, 103))


class Cfg:
    def __init__(self, max_header=262144, max_body=1073741824, strict_target_ctl=True, trailer_fold="either"):
        self.max_header = max_header
        self.max_body = max_body
        self.strict_target_ctl = strict_target_ctl
        self.trailer_fold = trailer_fold


# ------------------------------------------------------------------ cell helpers (bool or z3 Bool, never fork)
def cells_of(x):
    if isinstance(x, SymSeq):
        return x.c
    return list(x)


def c_in(cell, vals):
    if isinstance(cell, int):
        return cell in vals
    return z3.Or([cell == v for v in vals])


def c_rng(cell, lo, hi):
    if isinstance(cell, int):
        return lo <= cell <= hi
    return z3.And(z3.UGE(cell, lo), z3.ULE(cell, hi))


def c_eq(cell, v):
    if isinstance(cell, int):
        return cell == v
    return cell == v


def c_tchar(cell):
    if isinstance(cell, int):
        return cell in TCHAR
    return z3.Or(c_rng(cell, 48, 57), c_rng(cell, 65, 90), c_rng(cell, 97, 122), c_in(cell, tuple(b"!#$%&'*+-.^_`|~")))


def c_vchar_obs(cell):  # VCHAR / obs-text
    if isinstance(cell, int):
        return 0x21 <= cell <= 0x7E or cell >= 0x80
    return z3.Or(c_rng(cell, 0x21, 0x7E), z3.UGE(cell, 0x80))


def c_hex(cell):
    if isinstance(cell, int):
        return cell in HEXDIGS
    return z3.Or(c_rng(cell, 48, 57), c_rng(cell, 65, 70), c_rng(cell, 97, 102))


def all_of(cells, pred):
    return s_and(*[_b(pred(c)) for c in cells])


def any_of(cells, pred):
    return s_or(*[_b(pred(c)) for c in cells])


def _b(x):
    if isinstance(x, (bool, SymBool)):
        return x
    return mkbool(x)


def sub(S, a, b=None):
    """slice that keeps bytes / SymBytes"""
    return S[a:b] if b is not None else S[a:]


def find(S, pat, start=0):
    if isinstance(S, SymSeq):
        return S.find(pat, start)
    return S.find(pat, start)


def seq_eq_ci(cells, word):
    """ASCII case-insensitive equality with a lower-case word -> bool / SymBool"""
    if len(cells) != len(word):
        return False
    out = []
    for c, w in zip(cells, word):
        if 97 <= w <= 122:
            out.append(_b(c_in(c, (w, w - 32))))
        else:
            out.append(_b(c_eq(c, w)))
    return s_and(*out)


def strip_ows(S):
    """remove SP / HTAB at both ends (forks per removed byte)"""
    c = cells_of(S)
    a, b = 0, len(c)
    while a < b and bool(_b(c_in(c[a], (32, 9)))):
        a += 1
    while b > a and bool(_b(c_in(c[b - 1], (32, 9)))):
        b -= 1
    return S[a:b]


def is_token(cells):
    if not cells:
        return False
    return all_of(cells, c_tchar)


def upper_name(S):
    """NAME: upper-case, '-' -> '_' , as latin-1 text"""
    b = S.upper().replace(b"-", b"_")
    return b.decode("latin-1")


def to_text(S):
    return S.decode("latin-1")


def dec_value(cells):
    """numeric value of a digit string -> int / SymInt (no validation)"""
    from wsx.data import digits_value
    return digits_value([(c - 48) for c in cells], 10)


def hex_value(cells):
    from wsx.data import digits_value
    digs = []
    for c in cells:
        if isinstance(c, int):
            digs.append(int(chr(c), 16))
        else:
            digs.append(z3.If(z3.ULE(c, 57), c - 48, z3.If(z3.ULE(c, 70), c - 55, c - 87)))
    return digits_value(digs, 16)


# ------------------------------------------------------------------ field lines
def valid_field_value(cells):
    """field-value = *( field-content ), errata 4189: empty, or starts and ends with field-vchar with
    SP / HTAB / field-vchar in between.  `cells` is already OWS-stripped."""
    if not cells:
        return True
    return all_of(cells, lambda c: _or(c_vchar_obs(c), c_in(c, (32, 9))))


def _or(a, b):
    if isinstance(a, bool) and isinstance(b, bool):
        return a or b
    if a is True or b is True:
        return True
    if a is False:
        return b
    if b is False:
        return a
    return z3.Or(a, b)


def parse_field_line(line):
    """line without CR / LF -> (ok, name_bytes, value_bytes)"""
    colon = find(line, b":")
    if colon < 0:
        return False, None, None
    name = line[:colon]
    if not bool(_b(is_token(cells_of(name)))):
        return False, None, None
    value = strip_ows(line[colon + 1:])
    if not bool(_b(valid_field_value(cells_of(value)))):
        return False, None, None
    return True, name, value


def split_lines(block):
    """split on CRLF -> list of pieces"""
    out = []
    start = 0
    while True:
        p = find(block, b"\r\n", start)
        if p < 0:
            out.append(block[start:])
            return out
        out.append(block[start:p])
        start = p + 2


def has_crlf_byte(S):
    return bool(_b(any_of(cells_of(S), lambda c: c_in(c, (13, 10)))))


def parse_fields(block, allow_fold=True):
    """header block (after the request line) -> (ok, ordered list of (name_bytes, value_bytes))"""
    lines = []
    for piece in split_lines(block):
        if len(piece) == 0:
            continue
        if has_crlf_byte(piece):
            return False, None
        first = cells_of(piece)[0]
        if bool(_b(c_in(first, (32, 9)))):
            if not lines or not allow_fold:
                return False, None
            lines[-1] = lines[-1] + piece
        else:
            lines.append(piece)
    out = []
    for ln in lines:
        ok, name, value = parse_field_line(ln)
        if not ok:
            return False, None
        out.append((name, value))
    return True, out


# ------------------------------------------------------------------ chunk extensions
def c_qdtext(c):
    if isinstance(c, int):
        return c in (9, 32, 0x21) or 0x23 <= c <= 0x5B or 0x5D <= c <= 0x7E or c >= 0x80
    return z3.Or(c_in(c, (9, 32, 0x21)), c_rng(c, 0x23, 0x5B), c_rng(c, 0x5D, 0x7E), z3.UGE(c, 0x80))


def c_qpair2(c):
    if isinstance(c, int):
        return c in (9, 32) or 0x21 <= c <= 0x7E or c >= 0x80
    return z3.Or(c_in(c, (9, 32)), c_rng(c, 0x21, 0x7E), z3.UGE(c, 0x80))


def valid_chunk_ext(cells):
    """*( ";" token [ "=" ( token / quoted-string ) ] )   -- forks while scanning"""
    i, n = 0, len(cells)
    D = lambda e: bool(_b(e))
    while i < n:
        if not D(c_eq(cells[i], 59)):
            return False
        i += 1
        j = i
        while j < n and D(c_tchar(cells[j])):
            j += 1
        if j == i:
            return False
        i = j
        if i < n and D(c_eq(cells[i], 61)):
            i += 1
            if i < n and D(c_eq(cells[i], 34)):
                i += 1
                while True:
                    if i >= n:
                        return False
                    if D(c_eq(cells[i], 34)):
                        i += 1
                        break
                    if D(c_eq(cells[i], 92)):
                        if i + 1 >= n or not D(c_qpair2(cells[i + 1])):
                            return False
                        i += 2
                        continue
                    if not D(c_qdtext(cells[i])):
                        return False
                    i += 1
            else:
                j = i
                while j < n and D(c_tchar(cells[j])):
                    j += 1
                if j == i:
                    return False
                i = j
    return True


# ------------------------------------------------------------------ the stream parser
def parse_stream(S, cfg=None, max_messages=8):
    cfg = cfg or Cfg()
    events = []
    o = 0
    n = len(S)
    Sc = cells_of(S)
    for _ in range(max_messages):
        # R1: ignore whitespace / empty lines before a request-line
        start0 = o
        while o < n and bool(_b(c_in(Sc[o], WS0))):
            o += 1
        if o >= n:
            if o > start0:
                # only whitespace so far: unterminated head of (o - start0) bytes
                if _size_verdict(cfg, n - start0, 0, terminated=False) is True:
                    events.append(("err", (431,)))
                elif _size_verdict(cfg, n - start0, 0, terminated=False) is None:
                    events.append(("any",))
            return events
        # R2: head
        end = find(S, b"\r\n\r\n", o)
        if end < 0:
            v = _size_verdict(cfg, n - start0, n - o, terminated=False)
            if v is True:
                events.append(("err", (431,)))
            elif v is None:
                events.append(("any",))
            else:
                events.append(("incomplete",))
            return events
        head_end = end + 4
        v = _size_verdict(cfg, head_end - start0, head_end - o, terminated=True)
        if v is True:
            events.append(("err", (431,)))
            return events
        size_any = v is None
        head = S[o:head_end]
        ev, body_start = _parse_head(head, cfg)
        if size_any:
            events.append(("any",))
            return events
        if ev[0] in ("err", "any"):
            events.append(ev)
            return events
        kind, method, target, is11, fields, framing, close = ev
        o = head_end
        # body
        if framing[0] == "none":
            body = b""
        elif framing[0] == "cl":
            cl = framing[1]
            big = cl >= cfg.max_body
            if bool(_b(big) if not isinstance(big, bool) else big):
                if bool(cl > 0):
                    events.append(("err", (413,)))
                    return events
            remaining = n - o
            if bool(_b(cl > remaining) if not isinstance(cl > remaining, bool) else cl > remaining):
                events.append(("incomplete",))
                return events
            cl = cl.__index__() if isinstance(cl, SymInt) else cl
            body = S[o:o + cl]
            o += cl
        else:
            r = _parse_chunked(S, o, cfg)
            if r[0] != "ok":
                events.append(r)
                return events
            _, body, o2, framing_len = r
            # R10: the limit may be counted on framing bytes or on data bytes
            a = framing_len >= cfg.max_body
            b = len(body) >= cfg.max_body
            if a and b:
                events.append(("err", (413,)))
                return events
            if a or b:
                events.append(("any",))
                return events
            o = o2
            from_cl = [f for f in fields if True]
            fields = [(k, v2) for (k, v2) in fields] + [("CONTENT_LENGTH", str(len(body)))]
        events.append(("req", method, target, is11, fields, body, close))
        if close is True:
            return events
        if close is None:
            events.append(("any",))
            return events
    events.append(("any",))
    return events


def _size_verdict(cfg, with_ws, without_ws, terminated):
    """True: 431 required; False: no 431; None: depends on the accounting convention"""
    a = with_ws >= cfg.max_header
    b = without_ws >= cfg.max_header
    a = bool(_b(a)) if not isinstance(a, bool) else a
    b = bool(_b(b)) if not isinstance(b, bool) else b
    if a and b:
        return True
    if not a and not b:
        return False
    return None


def _parse_head(head, cfg):
    """head includes the final CRLFCRLF.  -> (event-or-partial, body_start)"""
    errs = set()
    p = find(head, b"\r\n")
    line = head[:p]
    block = head[p + 2:]
    # R3 request-line: trailing whitespace ignored
    lc = cells_of(line)
    b = len(lc)
    while b > 0 and bool(_b(c_in(lc[b - 1], WS0))):
        b -= 1
    line = line[:b]
    rl = _parse_request_line(line, cfg)
    ok_f, fields = parse_fields(block)
    if not ok_f:
        return ("err", (400,)), None
    if rl is None:
        return ("err", (400,)), None
    if rl == "any":
        return ("any",), None
    method, target, version = rl
    # R4: names with '_' dropped ; R5 singletons ; join repeats
    merged = []  # ordered (NAME, value-text)
    for name, value in fields:
        if bool(_b(any_of(cells_of(name), lambda c: c_eq(c, 95)))):
            continue
        key = upper_name(name)
        val = to_text(value)
        hit = None
        for i, (k, _) in enumerate(merged):
            if _eqb(k, key):
                hit = i
                break
        if hit is None:
            merged.append((key, val))
        else:
            if _eqb_any(key, ("HOST", "CONTENT_LENGTH", "CONTENT_TYPE")):
                return ("err", (400,)), None
            merged[hit] = (merged[hit][0], merged[hit][1] + ", " + val)
    is11 = version is not None and _eqb(version, b"1.1")
    conn = _get(merged, "CONNECTION")
    te = _get(merged, "TRANSFER_ENCODING")
    cl = _get(merged, "CONTENT_LENGTH")
    close = False
    chunked = False
    codes = set()
    if is11:
        if conn is not None and _ci_eq_text(conn, "close"):
            close = True
        if te is not None:
            merged = [(k, v) for (k, v) in merged if not _eqb(k, "TRANSFER_ENCODING")]
            encs = []
            ws_only = False
            for part in _split_text(te, ","):
                stripped = _strip_text(part)
                if len(stripped):
                    encs.append(stripped)
                elif len(part):
                    ws_only = True  # ", ," : an empty list element (9110 5.6.1) that a strict server may refuse
            nchunked = 0
            bad = False
            for i, e in enumerate(encs):
                if _ci_eq_text(e, "chunked"):
                    nchunked += 1
                    if i != len(encs) - 1:
                        bad = True
                else:
                    bad = True
            if bad or nchunked > 1:
                codes.add(501)
            elif ws_only:
                return ("any",), None
            elif nchunked == 1:
                chunked = True
                if cl is not None:
                    close = True
                    merged = [(k, v) for (k, v) in merged if not _eqb(k, "CONTENT_LENGTH")]
    else:
        if conn is None or not _ci_eq_text(conn, "keep-alive"):
            close = True
        if te is not None:
            close = True  # RFC 9112 6.1: faulty framing on a non-1.1 message, close after responding
    framing = ("none",)
    if not chunked:
        if cl is not None:
            cc = [c for c in _text_cells(cl)]
            if not cc or not bool(_b(all_of(cc, lambda c: c_rng(c, 48, 57)))):
                codes.add(400)
            else:
                val = dec_value(cc)
                if len(cc) > 4300:
                    return ("err", (400, 413)), None
                if not isinstance(val, int) or val > 0:
                    framing = ("cl", val)
                    if isinstance(val, SymInt):
                        if not bool(val > 0):
                            framing = ("none",)
    else:
        framing = ("chunked",)
    if codes:
        return ("err", tuple(sorted(codes))), None
    return ("req", to_text(method), to_text(target), is11, merged, framing, close), None


def _parse_request_line(line, cfg):
    """-> (method, target, version-or-None) | None (malformed) | "any" """
    if has_crlf_byte(line):
        return None
    parts = []
    start = 0
    c = cells_of(line)
    for i in range(len(c)):
        if bool(_b(c_eq(c[i], 32))):
            parts.append(line[start:i])
            start = i + 1
            if len(parts) > 2:
                return None
    parts.append(line[start:])
    if len(parts) not in (2, 3):
        return None
    method, target = parts[0], parts[1]
    if len(method) == 0 or len(target) == 0:
        return None
    mc = cells_of(method)
    if not bool(_b(all_of(mc, lambda x: _and(c_tchar(x), _not(c_rng(x, 97, 122)))))):
        return None
    tc = cells_of(target)
    # request-target: URI characters are a subset of VCHAR.  Control characters are not allowed
    # (strict_target_ctl: True = must be refused, None = either); obs-text is not a URI character but
    # many servers pass it through: either.
    has_ctl = bool(_b(any_of(tc, lambda x: _or(c_rng(x, 0, 0x20), c_eq(x, 0x7F)))))
    if has_ctl:
        if cfg.strict_target_ctl is True:
            return None
        if cfg.strict_target_ctl is None:
            return "any"
    if bool(_b(any_of(tc, lambda x: c_rng(x, 0x80, 0xFF)))):
        return "any"
    # VCHARs that are not RFC 3986 characters, and square brackets (legal only inside an IP-literal,
    # whose validation is the URI parser's business): a server may refuse the target or pass it on
    if bool(_b(any_of(tc, lambda x: c_in(x, tuple(b'"<>\\^`{|}[]'))))):
        return "any"
    version = None
    if len(parts) == 3:
        v = cells_of(parts[2])
        if len(v) != 8:
            return None
        okv = s_and(*[_b(c_eq(v[i], b"HTTP/"[i])) for i in range(5)], _b(c_rng(v[5], 48, 57)), _b(c_eq(v[6], 46)), _b(c_rng(v[7], 48, 57)))
        if not bool(okv):
            return None
        version = parts[2][5:]
    return method, target, version


def _and(a, b):
    if a is False or b is False:
        return False
    if a is True:
        return b
    if b is True:
        return a
    return z3.And(a, b)


def _not(a):
    if isinstance(a, bool):
        return not a
    return z3.Not(a)


def _eqb(a, b):
    r = a == b
    return bool(r)


def _eqb_any(a, opts):
    for o in opts:
        if _eqb(a, o):
            return True
    return False


def _get(merged, key):
    for k, v in merged:
        if _eqb(k, key):
            return v
    return None


def _text_cells(t):
    if isinstance(t, SymSeq):
        return t.c
    return [ord(ch) for ch in t]


def _ci_eq_text(t, word):
    return bool(_b(seq_eq_ci(_text_cells(t), [ord(ch) for ch in word])))


def _split_text(t, sep):
    return t.split(sep)


def _strip_text(t):
    return t.strip(" \t")


def _parse_chunked(S, o, cfg):
    """-> ("ok", body, next_offset, framing_len) | ("err", codes) | ("incomplete",) | ("any",)"""
    n = len(S)
    start = o
    body_cells = []
    while True:
        p = find(S, b"\r\n", o)
        if p < 0:
            # an unterminated control line: may already be refusable, never deliverable
            return _chunk_limit_or(cfg, n - start, len(body_cells), ("incomplete",))
        line = S[o:p]
        lc = cells_of(line)
        semi = -1
        for i in range(len(lc)):
            if bool(_b(c_eq(lc[i], 59))):
                semi = i
                break
        size_c = lc if semi < 0 else lc[:semi]
        ext_c = [] if semi < 0 else lc[semi:]
        if not size_c or not bool(_b(all_of(size_c, c_hex))):
            return _chunk_limit_or(cfg, p + 2 - start, len(body_cells), ("err", (400,)), err=True, avail=n - start)
        if ext_c and not valid_chunk_ext(ext_c):
            return _chunk_limit_or(cfg, p + 2 - start, len(body_cells), ("err", (400,)), err=True, avail=n - start)
        size = hex_value(size_c)
        o = p + 2
        if isinstance(size, SymInt):
            if bool(size > n - o + 2):
                return _chunk_limit_or(cfg, n - start, len(body_cells) + (n - o), ("incomplete",))
            size = size.__index__()
        if size > 0:
            if o + size > n:
                return _chunk_limit_or(cfg, n - start, len(body_cells) + (n - o), ("incomplete",))
            body_cells.extend(cells_of(S[o:o + size]))
            o += size
            if o + 2 > n:
                # terminator not complete yet: a wrong first byte is already an error
                if o < n and not bool(_b(c_eq(cells_of(S)[o], 13))):
                    # refusing now or waiting for the second byte are both fine
                    return ("any",)
                return _chunk_limit_or(cfg, n - start, len(body_cells), ("incomplete",))
            t = cells_of(S[o:o + 2])
            if not bool(s_and(_b(c_eq(t[0], 13)), _b(c_eq(t[1], 10)))):
                return _chunk_limit_or(cfg, o + 2 - start, len(body_cells), ("err", (400,)), err=True, avail=n - start)
            o += 2
            continue
        # last-chunk: trailer section
        while True:
            p = find(S, b"\r\n", o)
            if p < 0:
                return _chunk_limit_or(cfg, n - start, len(body_cells), ("incomplete",))
            tl = S[o:p]
            o = p + 2
            if len(tl) == 0:
                body = SymBytes(body_cells).simplify() if body_cells else b""
                return ("ok", body, o, o - start)
            first = cells_of(tl)[0]
            bad = False
            if bool(_b(c_in(first, (32, 9)))):
                if cfg.trailer_fold == "either":
                    return ("any",)
                bad = True
            elif has_crlf_byte(tl):
                bad = True
            else:
                ok, _, _ = parse_field_line(tl)
                bad = not ok
            if bad:
                # a server may refuse as soon as it sees the line or once the trailer section is complete
                if find(S, b"\r\n\r\n", o - 2) >= 0:
                    return _chunk_limit_or(cfg, o - start, len(body_cells), ("err", (400,)), err=True, avail=n - start)
                return ("any",)


def _chunk_limit_or(cfg, framing, data, otherwise, err=False, avail=None):
    a = framing >= cfg.max_body
    b = data >= cfg.max_body
    if a and b:
        return ("err", (413,))
    if a or b:
        return ("any",)
    if err and avail is not None and avail >= cfg.max_body:
        # malformed, and the bytes received for the body reach the limit: either refusal is right
        return ("err", (400, 413))
    return otherwise
