"""PEP 3333 / RFC 3875 image of a parsed request (DESIGN.md appendix A.3), independent of waitress.
Input: a ("req", method, target, is11, fields, body, close) event of refs/http_req and the configuration."""
from wsx.core import SymBool
from wsx.data import SymSeq, SymStr, SymBytes, lift
from refs.http_req import _b, c_eq, c_in, c_rng, c_hex, cells_of

try:
    import z3
except ImportError:  # pragma: no cover
    z3 = None


def _D(e):
    return bool(_b(e))


def z3_or(*xs):
    if all(isinstance(x, bool) for x in xs):
        return any(xs)
    xs = [x for x in xs if x is not False]
    if any(x is True for x in xs):
        return True
    return z3.Or(xs)


def _hexval(c):
    if isinstance(c, int):
        return int(chr(c), 16)
    return z3.If(z3.ULE(c, 57), c - 48, z3.If(z3.ULE(c, 70), c - 55, c - 87))


def unquote(cells):
    """%XX -> byte, invalid escapes left as they are"""
    out = []
    i, n = 0, len(cells)
    while i < n:
        c = cells[i]
        if i + 2 < n + 0 and i + 2 <= n - 1 and _D(c_eq(c, 37)) and _D(c_hex(cells[i + 1])) and _D(c_hex(cells[i + 2])):
            h, l = _hexval(cells[i + 1]), _hexval(cells[i + 2])
            if isinstance(h, int) and isinstance(l, int):
                out.append(h * 16 + l)
            else:
                hz = z3.BitVecVal(h, 8) if isinstance(h, int) else h
                lz = z3.BitVecVal(l, 8) if isinstance(l, int) else l
                out.append(z3.simplify(hz * 16 + lz))
            i += 3
        else:
            out.append(c)
            i += 1
    return out


def split_target(target):
    """target: latin-1 text (str / SymStr) -> (path_cells, query_cells) or None when the form is outside the claim"""
    t = cells_of(lift(target).encode("latin-1")) if not isinstance(target, (bytes, SymBytes)) else cells_of(target)
    if len(t) == 1 and _D(c_eq(t[0], 42)):
        return list(t), []
    rest = None
    if t and _D(c_eq(t[0], 47)):
        rest = t
    else:
        # absolute-form: scheme "://" authority [ path ]
        for i in range(len(t) - 2):
            if _D(c_eq(t[i], 58)):
                # scheme = ALPHA *( ALPHA / DIGIT / "+" / "-" / "." )
                sch = t[:i]
                ok = i > 0 and _D(z3_or(c_rng(sch[0], 65, 90), c_rng(sch[0], 97, 122))) and all(
                    _D(z3_or(c_rng(c, 65, 90), c_rng(c, 97, 122), c_rng(c, 48, 57), c_in(c, (43, 45, 46)))) for c in sch[1:])
                if ok and _D(c_eq(t[i + 1], 47)) and _D(c_eq(t[i + 2], 47)):
                    j = i + 3
                    while j < len(t) and not _D(c_in(t[j], (47, 63, 35))):
                        j += 1
                    rest = t[j:]
                break
        if rest is None:
            return None
    frag = len(rest)
    for i in range(len(rest)):
        if _D(c_eq(rest[i], 35)):
            frag = i
            break
    rest = rest[:frag]
    q = len(rest)
    for i in range(len(rest)):
        if _D(c_eq(rest[i], 63)):
            q = i
            break
    return rest[:q], rest[q + 1:]


def expected_environ(ev, cfg):
    """cfg: dict(url_prefix, url_scheme, server_name, server_port, peer=(host, port), ident)
    -> ordered list of (key, value) the environ must contain, or None (target form outside the claim)"""
    _, method, target, is11, fields, body, close = ev
    st = split_target(target)
    if st is None:
        return None
    pcells, qcells = st
    path = SymBytes(unquote(pcells)).simplify().decode("latin-1")
    pc = cells_of(lift(path)) if len(path) else []
    if pc and _D(c_eq(pc[0], 47)):
        k = 0
        while k < len(pc) and _D(c_eq(pc[k], 47)):
            k += 1
        path = "/" + (SymStr(pc[k:]).simplify() if k < len(pc) else "")
    prefix = cfg["url_prefix"]
    if prefix:
        if bool(path == prefix):
            path = ""
        elif len(path) > len(prefix) and bool(lift(path)[:len(prefix) + 1] == prefix + "/"):
            path = lift(path)[len(prefix):]
    query = SymBytes(qcells).simplify().decode("latin-1") if qcells else ""
    out = [
        ("REMOTE_ADDR", cfg["peer"][0]), ("REMOTE_HOST", cfg["peer"][0]), ("REMOTE_PORT", str(cfg["peer"][1])),
        ("REQUEST_METHOD", method), ("SERVER_PORT", str(cfg["server_port"])), ("SERVER_NAME", cfg["server_name"]),
        ("SERVER_SOFTWARE", cfg["ident"]), ("SERVER_PROTOCOL", "HTTP/1.1" if is11 else "HTTP/1.0"),
        ("SCRIPT_NAME", prefix), ("PATH_INFO", path), ("REQUEST_URI", target), ("QUERY_STRING", query),
        ("wsgi.url_scheme", cfg["url_scheme"]),
    ]
    hdr = []
    for name, value in fields:
        key = None
        for fixed in ("CONTENT_TYPE", "CONTENT_LENGTH"):
            if bool(name == fixed):
                key = fixed
        if key is None:
            key = "HTTP_" + name
        hdr.append((key, value))
    return out, hdr
