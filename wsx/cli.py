import argparse
import os
import sys

from wsx import runner


def main():
    ap = argparse.ArgumentParser()
    ap.add_argument("prop")
    ap.add_argument("--tier", default=os.environ.get("VERIF_TIER", "quick"), choices=["quick", "thorough"])
    ap.add_argument("--replay")
    ap.add_argument("--only")
    ap.add_argument("--nproc", type=int)
    ap.add_argument("--budget", type=float)
    a = ap.parse_args()
    if a.replay:
        st, text = runner.replay_file(a.prop, a.replay)
        print(text)
        sys.exit(1 if st.startswith("reproduced") else 0 if st == "not-reproduced" else 2)
    sys.exit(runner.check(a.prop, a.tier, nproc=a.nproc, budget_s=a.budget, only=a.only))


main()
