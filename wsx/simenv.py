"""Simulated operating-system environment for the threaded harnesses (H-sys): sockets, listening
socket, pipe, select / poll, os, with readiness derived from the simulated state.  Every call is a
scheduling point.  Faults are injected through a hook that the harness resolves symbolically."""
import errno
import os as _os
import select as _select
import socket as _socket

from . import sched
from .core import SymInt, Unsupported, E
from .data import SymBytes, lift


_FD = [10]  # descriptor numbers are never reused across runs: a finalizer (file_wrapper.__del__) of an earlier
#             run that closes its descriptor late must not hit an object of the current run


class Net:
    def __init__(self):
        self.objs = {}  # fd -> object
        self.fault_hook = None  # (op, obj) -> errno or None
        self.log = []

    def new_fd(self, obj):
        fd = _FD[0]
        _FD[0] += 1
        self.objs[fd] = obj
        return fd

    def fault(self, op, obj):
        if self.fault_hook is None:
            return
        err = self.fault_hook(op, obj)
        if err:
            self.log.append(("fault", op, err))
            raise OSError(err, _os.strerror(err))

    def who(self):
        t = sched.me()
        return t.name if t is not None else "driver"


class SimConn:
    """server-side end of an accepted client connection"""

    def __init__(self, net, inbox=(), sndbuf=65536, name="conn"):
        self.net = net
        self.name = name
        self.fd = net.new_fd(self)
        self.inbox = list(inbox)  # pieces the client has sent and the server has not read yet
        self.client_eof = False  # client closed its sending side
        self.peer_gone = False  # client vanished: send fails with EPIPE, recv returns b""
        self.client_reading = True  # client drains what the server sends
        self.sent = []
        self.accept = None  # list of per-send byte budgets (int / SymInt), consumed in order; None = everything
        self.sndbuf = sndbuf
        self.closed = 0
        self.closed_by = []
        self.calls = {}

    # -- readiness
    def sim_readable(self):
        return not self.closed and (bool(self.inbox) or self.client_eof or self.peer_gone)

    def sim_writable(self):
        return not self.closed and (self.client_reading or self.peer_gone)

    def _count(self, op):
        self.calls[op] = self.calls.get(op, 0) + 1

    def fileno(self):
        return self.fd

    def setblocking(self, flag):
        self._count("setblocking")
        self.net.fault("setblocking", self)

    def getsockopt(self, level, opt):
        self._count("getsockopt")
        self.net.fault("getsockopt", self)
        if opt == _socket.SO_SNDBUF:
            return self.sndbuf
        return 0

    def setsockopt(self, *a):
        self._count("setsockopt")
        self.net.fault("setsockopt", self)

    def getpeername(self):
        return ("127.0.0.1", 40000 + self.fd)

    def send(self, data):
        sched.yield_point("send")
        self._count("send")
        if self.closed:
            raise OSError(errno.EBADF, "Bad file descriptor")
        self.net.fault("send", self)
        if self.peer_gone:
            raise OSError(errno.EPIPE, "Broken pipe")
        if not self.client_reading:
            raise BlockingIOError(errno.EWOULDBLOCK, "would block")
        n = len(data)
        if self.accept:
            k = self.accept.pop(0)
            if k is not None:
                if isinstance(k, SymInt):
                    if bool(k < n):
                        n = k.clamp_index(n)
                elif k < n:
                    n = k
        if n == 0:
            raise BlockingIOError(errno.EWOULDBLOCK, "would block")
        self.sent.append((data[:n], self.net.who()))
        return n

    def recv(self, n):
        sched.yield_point("recv")
        self._count("recv")
        if self.closed:
            raise OSError(errno.EBADF, "Bad file descriptor")
        self.net.fault("recv", self)
        if self.inbox:
            piece = self.inbox.pop(0)
            if len(piece) > n:
                self.inbox.insert(0, piece[n:])
                piece = piece[:n]
            return piece
        if self.client_eof or self.peer_gone:
            return b""
        raise BlockingIOError(errno.EWOULDBLOCK, "would block")

    def close(self):
        sched.yield_point("close")
        self.closed += 1
        self.closed_by.append(self.net.who())

    def wire(self):
        out = []
        for p, _ in self.sent:
            out.extend(lift(p).c)
        return SymBytes(out).simplify()


class SimListen:
    def __init__(self, net):
        self.net = net
        self.fd = net.new_fd(self)
        self.pending = []  # (SimConn, addr)
        self.closed = 0
        self.closed_by = []
        self.family = _socket.AF_INET
        self.type = _socket.SOCK_STREAM
        self.proto = 0
        self.listening = False

    def sim_readable(self):
        return not self.closed and bool(self.pending)

    def sim_writable(self):
        return False

    def fileno(self):
        return self.fd

    def setblocking(self, f):
        pass

    def getsockopt(self, *a):
        return 0

    def setsockopt(self, *a):
        pass

    def bind(self, a):
        pass

    def listen(self, n):
        self.listening = True

    def getsockname(self):
        return ("127.0.0.1", 8080)

    def accept(self):
        sched.yield_point("accept")
        if self.closed:
            raise OSError(errno.EBADF, "Bad file descriptor")
        self.net.fault("accept", self)
        if not self.pending:
            raise BlockingIOError(errno.EWOULDBLOCK, "would block")
        conn, addr = self.pending.pop(0)
        return conn, addr

    def close(self):
        self.closed += 1
        self.closed_by.append(self.net.who())


class SimPipeEnd:
    def __init__(self, net, pipe, kind):
        self.net = net
        self.pipe = pipe
        self.kind = kind
        self.fd = net.new_fd(self)
        self.closed = 0

    def sim_readable(self):
        return self.kind == "r" and not self.closed and len(self.pipe.buf) > 0

    def sim_writable(self):
        return self.kind == "w" and not self.closed


class SimPipe:
    def __init__(self, net):
        self.buf = bytearray()
        self.r = SimPipeEnd(net, self, "r")
        self.w = SimPipeEnd(net, self, "w")
        self.writes = 0


class OsShim:
    """stands in for `os` inside waitress.trigger / waitress.wasyncore"""
    name = "posix"

    def __init__(self, net):
        self.net = net
        self.pipes = []

    def __getattr__(self, k):
        return getattr(_os, k)

    def pipe(self):
        p = SimPipe(self.net)
        self.pipes.append(p)
        return p.r.fd, p.w.fd

    def dup(self, fd):
        obj = self.net.objs[fd]
        if isinstance(obj, SimPipeEnd):
            return SimPipeEnd(self.net, obj.pipe, obj.kind).fd  # a second descriptor for the same pipe end
        return self.net.new_fd(obj)

    def set_blocking(self, fd, flag):
        pass

    def write(self, fd, data):
        sched.yield_point("pipe.write")
        end = self.net.objs[fd]
        if end.closed:
            raise OSError(errno.EBADF, "Bad file descriptor")
        end.pipe.buf.extend(data)
        end.pipe.writes += 1
        return len(data)

    def read(self, fd, n):
        sched.yield_point("pipe.read")
        end = self.net.objs[fd]
        if end.closed:
            raise OSError(errno.EBADF, "Bad file descriptor")
        if not end.pipe.buf:
            raise BlockingIOError(errno.EWOULDBLOCK, "would block")
        out = bytes(end.pipe.buf[:n])
        del end.pipe.buf[:n]
        return out

    def close(self, fd):
        obj = self.net.objs.get(fd)
        if obj is not None:
            obj.closed += 1


class _Poller:
    def __init__(self, shim):
        self.shim = shim
        self.reg = {}

    def register(self, fd, flags):
        self.reg[fd] = flags

    def unregister(self, fd):
        self.reg.pop(fd, None)

    def poll(self, timeout=None):
        return self.shim._poll(self.reg)


class SelectShim:
    """stands in for `select` inside waitress.wasyncore.  The timeout is ignored (taken as infinite): a
    call returns only when something is ready - which is exactly the no-lost-wake-up assumption."""
    POLLIN, POLLOUT, POLLPRI, POLLERR, POLLHUP, POLLNVAL = (_select.POLLIN, _select.POLLOUT, _select.POLLPRI, _select.POLLERR,
                                                             _select.POLLHUP, _select.POLLNVAL)
    error = OSError

    def __init__(self, net):
        self.net = net
        self.calls = 0
        self.blocked_calls = 0
        self.ticks = 0  # pending "timeout expired" wake-ups granted by the driver (the passage of loop periods)

    def _tick(self):
        if self.ticks > 0:
            self.ticks -= 1
            return True
        return False

    def _ready(self, r, w):
        objs = self.net.objs
        rr = [fd for fd in r if fd in objs and objs[fd].sim_readable()]
        ww = [fd for fd in w if fd in objs and objs[fd].sim_writable()]
        return rr, ww

    def select(self, r, w, e, timeout=None):
        self.calls += 1
        sched.yield_point("select")
        rr, ww = self._ready(r, w)
        if not rr and not ww:
            self.blocked_calls += 1
            sched.block_until(lambda: any(self._ready(r, w)) or self.ticks > 0, "select.block")
            rr, ww = self._ready(r, w)
            if not rr and not ww:
                self._tick()  # the timeout expired: return with nothing ready
        for fd in list(r) + list(w):
            if fd not in self.net.objs or getattr(self.net.objs[fd], "closed", 0):
                pass
        return rr, ww, []

    def poll(self):
        return _Poller(self)

    def _poll(self, reg):
        self.calls += 1
        sched.yield_point("poll")

        def ready():
            out = []
            for fd, flags in reg.items():
                o = self.net.objs.get(fd)
                if o is None:
                    continue
                f = 0
                if flags & self.POLLIN and o.sim_readable():
                    f |= self.POLLIN
                if flags & self.POLLOUT and o.sim_writable():
                    f |= self.POLLOUT
                if f:
                    out.append((fd, f))
            return out

        res = ready()
        if not res:
            self.blocked_calls += 1
            sched.block_until(lambda: bool(ready()) or self.ticks > 0, "poll.block")
            res = ready()
            if not res:
                self._tick()
        return res


def wire_up(W, net):
    """replace threading / select / os / time in the instrumented waitress namespaces"""
    from . import env
    sel = SelectShim(net)
    osh = OsShim(net)
    W.wasyncore.select = sel
    W.wasyncore.os = osh
    W.wasyncore.time = env.CLOCK
    W.trigger.os = osh
    W.trigger.threading = sched.ThreadingShim
    W.channel.threading = sched.ThreadingShim
    W.task.threading = sched.ThreadingShim
    W.task.time = env.CLOCK
    W.channel.time = env.CLOCK
    W.server.time = env.CLOCK
    return sel, osh
