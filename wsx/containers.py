"""SymDict: an insertion-ordered mapping whose keys may be symbolic strings.
Lookup forks on equality with every stored key (python dict semantics: first equal key wins)."""
from .sxbuiltins import sx_eq

_enabled = [False]


def enable_symdict_displays(flag=True):
    _enabled[0] = flag


def symdict_displays_enabled():
    return _enabled[0]


_MISSING = object()


class SymDict:
    __wsx_dict__ = True
    __wsx_sym__ = True

    def __init__(self, init=None, **kw):
        self.k = []
        self.v = []
        if init is not None:
            items = init.items() if hasattr(init, "items") else init
            for a, b in items:
                self[a] = b
        for a, b in kw.items():
            self[a] = b

    def _idx(self, key):
        for i, k in enumerate(self.k):
            if sx_eq(k, key):
                return i
        return -1

    def __contains__(self, key):
        return self._idx(key) >= 0

    def __getitem__(self, key):
        i = self._idx(key)
        if i < 0:
            raise KeyError(key)
        return self.v[i]

    def __setitem__(self, key, val):
        i = self._idx(key)
        if i < 0:
            self.k.append(key)
            self.v.append(val)
        else:
            self.v[i] = val

    def __delitem__(self, key):
        i = self._idx(key)
        if i < 0:
            raise KeyError(key)
        self.k.pop(i)
        self.v.pop(i)

    def get(self, key, d=None):
        i = self._idx(key)
        return d if i < 0 else self.v[i]

    def pop(self, key, d=_MISSING):
        i = self._idx(key)
        if i < 0:
            if d is _MISSING:
                raise KeyError(key)
            return d
        self.k.pop(i)
        return self.v.pop(i)

    def setdefault(self, key, d=None):
        i = self._idx(key)
        if i < 0:
            self.k.append(key)
            self.v.append(d)
            return d
        return self.v[i]

    def update(self, other=(), **kw):
        items = other.items() if hasattr(other, "items") else other
        for a, b in items:
            self[a] = b
        for a, b in kw.items():
            self[a] = b

    def items(self):
        return list(zip(self.k, self.v))

    def keys(self):
        return list(self.k)

    def values(self):
        return list(self.v)

    def __iter__(self):
        return iter(list(self.k))

    def __len__(self):
        return len(self.k)

    def __bool__(self):
        return bool(self.k)

    def copy(self):
        d = SymDict()
        d.k = list(self.k)
        d.v = list(self.v)
        return d

    def clear(self):
        self.k = []
        self.v = []

    def __repr__(self):
        return "SymDict(%r)" % (self.items(),)

    def __wsx_conc__(self, m):
        from .core import conc
        out = {}
        for k, v in zip(self.k, self.v):
            out[conc(k, m)] = conc(v, m)
        return out
