"""Replays one counterexample file against the pristine /repo tree (plain `import waitress`,
no loader, no solver).  Prints REPLAY-RESULT: reproduced | not-reproduced."""
import json
import sys

from wsx import runner


def main():
    prop, path = sys.argv[1], sys.argv[2]
    H = runner.load_harness(prop)
    with open(path) as f:
        rep = json.load(f)
    inputs = runner.dec(rep["inputs"])
    if hasattr(H, "replay"):
        failed, obs = H.replay(rep, inputs)
    else:
        R = H.real_namespace()
        obs = H.scenario(R, inputs)
        failed = [label for label, c in H.oracle(inputs, obs) if not c]
    print("inputs: %r" % (inputs,))
    print("observation: %s" % (repr(obs)[:1500],))
    if failed:
        print("failed: %s" % "; ".join(failed))
        print("REPLAY-RESULT: reproduced")
    else:
        print("REPLAY-RESULT: not-reproduced")


main()
