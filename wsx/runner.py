"""Job runner: spreads the jobs of one property check over processes, aggregates statistics,
replays candidate counterexamples on the pristine tree, writes evidence, decides the exit code.

Harness protocol (module harness/Cxx.py):
  PROPERTY            id
  TITLE               one line
  jobs(tier)          -> list of job dicts (json-able); each has at least {"name": ...}
  make_inputs(job)    -> dict of (possibly symbolic) inputs; runs inside the engine
  scenario(ns, inputs)-> observation (nested tuples/lists of plain or symbolic values);
                         ns is the module namespace to use (instrumented / plain / real)
  oracle(inputs, obs) -> list of (label, cond) ; cond bool / SymBool
  normalize(obs)      -> comparable plain value for the concolic cross-check (optional)
  KNOWN               -> {finding_id: predicate(inputs, obs) -> bool/SymBool} exclusion predicates (optional)
  GOALS               -> list of reachability goal names that must be hit (optional); hit through goals(inputs, obs)
  BOUNDS(tier), ASSUMPTIONS, STUBS  -> evidence text
"""
import hashlib
import importlib
import json
import multiprocessing
import os
import subprocess
import sys
import time
import traceback

VERIF = os.path.dirname(os.path.dirname(os.path.abspath(__file__)))
EXIT_OK, EXIT_VIOLATION, EXIT_INCONCLUSIVE = 0, 1, 2
CURRENT_KNOWN = []  # ids of recorded (not repaired) findings of the property being checked; harnesses assume them away


# ---------------------------------------------------------------------------------- json codec
def enc(v):
    if isinstance(v, (bytes, bytearray)):
        return {"$b": bytes(v).decode("latin-1")}
    if isinstance(v, tuple):
        return {"$t": [enc(x) for x in v]}
    if isinstance(v, list):
        return [enc(x) for x in v]
    if isinstance(v, dict):
        if all(isinstance(k, str) for k in v):
            return {"$d": {k: enc(x) for k, x in v.items()}}
        return {"$m": [[enc(k), enc(x)] for k, x in v.items()]}
    if isinstance(v, (set, frozenset)):
        return {"$s": sorted((enc(x) for x in v), key=repr)}
    if isinstance(v, (str, int, float, bool)) or v is None:
        return v
    return {"$r": repr(v)}


def dec(v):
    if isinstance(v, list):
        return [dec(x) for x in v]
    if isinstance(v, dict):
        if "$b" in v:
            return v["$b"].encode("latin-1")
        if "$t" in v:
            return tuple(dec(x) for x in v["$t"])
        if "$d" in v:
            return {k: dec(x) for k, x in v["$d"].items()}
        if "$m" in v:
            return {dec(k): dec(x) for k, x in v["$m"]}
        if "$s" in v:
            return set(dec(x) for x in v["$s"])
        if "$r" in v:
            return v["$r"]
    return v


def load_harness(prop):
    sys.path.insert(0, VERIF) if VERIF not in sys.path else None
    return importlib.import_module("harness.%s" % prop)


def _call_pred(p, inputs, obs, label):
    try:
        return p(inputs, obs, label)
    except TypeError:
        return p(inputs, obs)


# ---------------------------------------------------------------------------------- one job (child process)
def _funcs():
    from wsx import loader, sxbuiltins
    return sorted("%s@%s" % (f, loader.FUNC_HASH.get(f, "")) for f in sxbuiltins.entered_functions())


def run_job(arg):
    prop, job, tier, deadline, known_ids = arg
    t0 = time.time()
    res = dict(name=job.get("name", "?"), stats={}, violations=[], unsupported=[], goals={}, samples=[],
               functions=[], concolic=0, mismatches=[], wall=0.0, error=None)
    try:
        import signal

        def _alarm(signum, frame):
            raise RuntimeError("job watchdog: a single run did not finish (harness / scheduler hang)")
        signal.signal(signal.SIGALRM, _alarm)
        signal.alarm(max(60, int(deadline - time.time()) + 180))
        sys.setrecursionlimit(100000)
        from wsx import core, env, sxbuiltins
        from wsx.core import Engine, conc
        H = load_harness(prop)
        global CURRENT_KNOWN
        CURRENT_KNOWN = list(known_ids)
        ns = H.namespaces()  # (W, P)
        W, P = ns
        if job.get("custom"):
            out = H.run_custom(job, tier, deadline, known_ids)
            res.update(out)
            res["functions"] = _funcs()
            res["wall"] = time.time() - t0
            return res
        eng = Engine(solver_timeout_ms=getattr(H, "SOLVER_TIMEOUT_MS", 60000), deadline=deadline,
                     max_paths=job.get("max_paths"))
        eng.opaque_ints = getattr(H, "OPAQUE_INTS", False)
        eng.forced = dict(job.get("force") or {})
        known = getattr(H, "KNOWN", {})
        preds = [known[k] for k in known_ids if k in known]
        normalize = getattr(H, "normalize", lambda o: o)
        goalfn = getattr(H, "goals", None)
        nsample = [0]

        def fn():
            env.reset_loggers()
            inputs = H.make_inputs(job)
            for k, v in inputs.items():
                eng.register_input(k, v)
            obs = H.scenario(W, inputs)
            for label, cond in H.oracle(inputs, obs):
                excl = [_call_pred(p, inputs, obs, label) for p in preds] if preds else None
                eng.require(cond, label, detail=obs, excl=excl)
            return inputs, obs

        def on_path(e, r):
            inputs, obs = r
            m = e.current_model()
            cin = conc(inputs, m)
            want = normalize(conc(obs, m))
            if goalfn is not None:
                for g in goalfn(cin, conc(obs, m)):
                    e.goal(g)
            if P is not None:
                env.reset_loggers()
                got = normalize(H.scenario(P, cin))
                res["concolic"] += 1
                if got != want:
                    if len(res["mismatches"]) < 5:
                        res["mismatches"].append(dict(inputs=enc(cin), symbolic=repr(want)[:600], concrete=repr(got)[:600]))
            if nsample[0] < 2:
                nsample[0] += 1
                res["samples"].append(dict(job=res["name"], inputs=enc(cin), observation=repr(want)[:400]))

        eng.explore(fn, on_path)
        res["stats"] = eng.stats
        res["violations"] = [dict(label=v["label"], inputs=enc(v["inputs"]), detail=repr(v["detail"])[:800]) for v in eng.violations[:20]]
        res["nviol"] = len(eng.violations)
        res["unsupported"] = eng.unsupported[:10]
        res["goals"] = eng.goals
        res["functions"] = _funcs()
    except BaseException as e:  # noqa
        res["error"] = "%s: %s\n%s" % (type(e).__name__, e, traceback.format_exc()[-1500:])
    try:
        import signal
        signal.alarm(0)
    except Exception:
        pass
    res["wall"] = time.time() - t0
    return res


# ---------------------------------------------------------------------------------- replay (pristine tree, subprocess)
def replay_file(prop, path, timeout=120):
    """-> (status, text): status in 'reproduced' / 'not-reproduced' / 'error'"""
    env_ = dict(os.environ)
    src = os.path.dirname(os.environ.get("WSX_WAITRESS_SRC", "/repo/src/waitress").rstrip("/"))
    env_["PYTHONPATH"] = src + ":" + VERIF
    import tempfile, shutil
    pyc = tempfile.mkdtemp(prefix="wsx_pyc_")  # never trust a bytecode cache of a tree that may just have been edited
    env_["PYTHONPYCACHEPREFIX"] = pyc
    try:
        return _replay_file(prop, path, timeout, env_)
    finally:
        shutil.rmtree(pyc, ignore_errors=True)


def _replay_file(prop, path, timeout, env_):
    try:
        p = subprocess.run([sys.executable, "-m", "wsx.replay_main", prop, path], cwd=VERIF, env=env_,
                           capture_output=True, text=True, timeout=timeout)
    except subprocess.TimeoutExpired:
        return "reproduced-hang", "replay did not terminate within %ds" % timeout
    out = p.stdout + p.stderr
    if "REPLAY-RESULT: reproduced" in out:
        return "reproduced", out
    if "REPLAY-RESULT: not-reproduced" in out:
        return "not-reproduced", out
    return "error", out


def load_known(prop):
    p = os.path.join(VERIF, "known_findings.json")
    if not os.path.exists(p):
        return []
    with open(p) as f:
        return [k for k in json.load(f) if k.get("property") == prop]


# ---------------------------------------------------------------------------------- main entry
def check(prop, tier, nproc=None, budget_s=None, only=None):
    t0 = time.time()
    H = load_harness(prop)
    seed = int(os.environ.get("VERIF_SEED", "0") or 0)
    jobs = H.jobs(tier)
    if only:
        jobs = [j for j in jobs if only in j.get("name", "")]
    # long jobs first (better packing on the worker pool); the order has no influence on what is explored
    heavy = getattr(H, "HEAVY_FIRST", ())
    if heavy:
        jobs.sort(key=lambda j: next((i for i, h in enumerate(heavy) if h in j.get("name", "")), len(heavy)))
    budget = budget_s or getattr(H, "BUDGET", {}).get(tier, 1200)
    deadline = t0 + budget
    known = load_known(prop)
    known_ids = [k["id"] for k in known if k.get("kind") == "known"]
    nproc = nproc or int(os.environ.get("WSX_NPROC", "16"))
    args = [(prop, j, tier, deadline, known_ids) for j in jobs]
    results = []
    ctx = multiprocessing.get_context("fork")
    witness_only = only == "@witness"
    if witness_only:
        only = None
    if nproc == 1 or len(args) <= 1:
        for a in args:
            results.append(run_job(a))
    else:
        with ctx.Pool(min(nproc, len(args)), maxtasksperchild=getattr(H, "MAXTASKS", 8)) as pool:
            for r in pool.imap_unordered(run_job, args, chunksize=1):
                results.append(r)
    # ------------------------------------------------------------ aggregate
    tot = dict(paths=0, aborted=0, decisions=0, forks=0, solver_calls=0, solver_time=0.0, unknown=0)
    goals = {}
    funcs = set()
    samples = []
    problems = []
    concolic = 0
    cands = []
    extra = {}
    for r in results:
        for k in tot:
            tot[k] += r.get("stats", {}).get(k, 0)
        for g, n in r.get("goals", {}).items():
            goals[g] = goals.get(g, 0) + n
        funcs.update(r.get("functions", []))
        if len(samples) < 6:
            samples.extend(r.get("samples", [])[:1])
        concolic += r.get("concolic", 0)
        if r.get("error"):
            problems.append("job %s: engine error: %s" % (r["name"], r["error"]))
        for u in r.get("unsupported", []):
            problems.append("job %s: %s" % (r["name"], u))
        for mm in r.get("mismatches", []):
            problems.append("job %s: concolic mismatch (model of the C boundary or instrumentation wrong): %s" % (r["name"], json.dumps(mm)[:900]))
        for v in r.get("violations", []):
            cands.append((r["name"], v))
        for k, v in r.get("extra", {}).items():
            extra[k] = extra.get(k, 0) + v if isinstance(v, (int, float)) else v
    missing_goals = [g for g in getattr(H, "GOALS", []) if goals.get(g, 0) == 0]
    if not only and not witness_only:
        for g in missing_goals:
            problems.append("reachability goal never hit (vacuity guard): %s" % g)
    if os.environ.get("WSX_TRIAGE"):
        import re as _re
        groups = {}
        for jobname, v in cands:
            key = _re.sub(r"\(got .*", "", v["label"])[:110]
            groups.setdefault(key, []).append((jobname, v))
        for key, lst in sorted(groups.items(), key=lambda kv: -len(kv[1])):
            print("TRIAGE %5d  %s" % (len(lst), key))
            seen = set()
            for jobname, v in lst:
                fam = jobname.split(":")[1] if ":" in jobname else jobname
                if fam in seen:
                    continue
                seen.add(fam)
                if len(seen) > int(os.environ.get("WSX_TRIAGE_N", "12")):
                    break
                print("        %-40s %s" % (jobname[:40], json.dumps(v["inputs"])[:260]))
        for p_ in problems[:10]:
            print("PROBLEM", p_[:600])
        return EXIT_INCONCLUSIVE
    # ------------------------------------------------------------ replay candidates on the pristine tree
    rdir = os.path.join(VERIF, "replays", prop)
    os.makedirs(rdir, exist_ok=True)
    violations = []
    seen_sig = set()
    nrep = 0
    for jobname, v in cands:
        sig = hashlib.sha1(json.dumps([v["label"], v["inputs"]], sort_keys=True).encode()).hexdigest()[:12]
        if sig in seen_sig:
            continue
        seen_sig.add(sig)
        if nrep >= 40:
            break
        nrep += 1
        path = os.path.join(rdir, "%s.json" % sig)
        with open(path, "w") as f:
            json.dump(dict(property=prop, job=jobname, label=v["label"], inputs=v["inputs"], detail=v.get("detail")), f, indent=1)
        st, text = replay_file(prop, path)
        if st.startswith("reproduced"):
            violations.append((path, v["label"], text))
        else:
            problems.append("candidate counterexample did not reproduce on the pristine tree (%s): %s :: %s" % (st, path, text[-400:]))
    # ------------------------------------------------------------ known findings: witnesses
    lines = []
    for k in known:
        if k.get("kind") == "fixed" and k.get("witness") is not None and not only:
            # a repaired defect: its witness is replayed as a regression test and reported like any other violation
            wpath = os.path.join(rdir, "fixed_%s.json" % k["id"])
            with open(wpath, "w") as f:
                json.dump(dict(property=prop, job="witness", label="regression of %s" % k["id"], inputs=k["witness"]), f, indent=1)
            st, text = replay_file(prop, wpath)
            if st.startswith("reproduced"):
                violations.append((wpath, "repaired defect %s is back: %s" % (k["id"], k["what"]), text))
            continue
        if k.get("kind") != "known":
            continue
        wpath = os.path.join(rdir, "known_%s.json" % k["id"])
        with open(wpath, "w") as f:
            json.dump(dict(property=prop, job=k.get("job", "witness"), label=k["id"], inputs=k["witness"]), f, indent=1)
        st, text = replay_file(prop, wpath)
        if st.startswith("reproduced"):
            lines.append("KNOWN-FINDING: property=%s %s: %s" % (prop, k["id"], k["what"]))
        else:
            lines.append("NOTE: known finding %s of %s no longer reproduces (%s)" % (k["id"], prop, st))
    wall = time.time() - t0
    # ------------------------------------------------------------ evidence
    ev = dict(
        property_id=prop, tier=tier, seed=seed, level="model_checking",
        coverage=dict(
            states=max(tot["paths"], 0), transitions=tot["decisions"], traces_validated_against_impl=concolic,
            samples=samples or [{"note": "no path completed"}],
            jobs=len(results), aborted_paths=tot["aborted"], forks=tot["forks"],
            solver_queries=tot["solver_calls"], solver_time_s=round(tot["solver_time"], 2), unknown_results=tot["unknown"],
            reachability_goals=goals, functions_encoded=sorted(funcs),
            source_digest=_digest(), bounds=H.BOUNDS(tier) if callable(getattr(H, "BOUNDS", None)) else getattr(H, "BOUNDS", ""),
            stubs=getattr(H, "STUBS", []), candidates=len(cands), replayed=nrep,
            inconclusive=problems[:20], exhaustive=False,
            slowest_jobs=[dict(job=r["name"], paths=r.get("stats", {}).get("paths", 0), wall_s=round(r.get("wall", 0), 1))
                          for r in sorted(results, key=lambda r: -r.get("wall", 0))[:8]],
            per_job=[[r["name"], r.get("stats", {}).get("paths", 0), r.get("stats", {}).get("solver_calls", 0), round(r.get("wall", 0), 1)]
                     for r in sorted(results, key=lambda r: r["name"])], **extra),
        assumptions=getattr(H, "ASSUMPTIONS", []),
        wall_s=round(wall, 2), violations=len(violations))
    os.makedirs(os.path.join(VERIF, "evidence"), exist_ok=True)
    partial = bool(only) or witness_only or os.environ.get("WSX_WAITRESS_SRC")
    # partial runs (--only) and runs against another tree never overwrite the evidence of record
    with open(os.path.join(VERIF, "evidence", ("partial_%s.json" if partial else "%s.json") % prop), "w") as f:
        json.dump(ev, f, indent=1)
    # ------------------------------------------------------------ verdict
    for l in lines:
        print(l)
    print("%s %s: jobs=%d paths=%d decisions=%d solver_queries=%d solver_time=%.1fs concolic=%d candidates=%d wall=%.1fs" % (
        prop, tier, len(results), tot["paths"], tot["decisions"], tot["solver_calls"], tot["solver_time"], concolic, len(cands), wall))
    if violations:
        for path, label, text in violations[:10]:
            print("VIOLATION property=%s replay=%s" % (prop, path))
            print("  what: %s" % label)
            for ln in text.strip().splitlines()[-6:]:
                print("  | " + ln[:300])
        return EXIT_VIOLATION
    if problems:
        print("INCONCLUSIVE property=%s (%d problems)" % (prop, len(problems)))
        for p in problems[:12]:
            print("  - " + p[:1200])
        return EXIT_INCONCLUSIVE
    print("PASS property=%s tier=%s" % (prop, tier))
    return EXIT_OK


def _digest():
    from wsx import loader
    return loader.source_digest()
