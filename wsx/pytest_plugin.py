"""pytest plugin: run the repository's own suite against the instrumented import (loader self-test)."""
import os
from wsx import loader
ALL = {"adjustments", "buffers", "channel", "parser", "proxy_headers", "receiver", "rfc7230", "runner",
       "server", "task", "trigger", "utilities", "wasyncore", "compat"}
loader.install(yield_modules=ALL if os.environ.get("WSX_SELFTEST_YIELDS", "1") == "1" else (), dict_modules={"task"})
