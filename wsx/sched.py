"""Deterministic cooperative scheduler: interleavings as symbolic (finite-domain, unconstrained) choices.

Modelled threads are real OS threads of which exactly one runs at a time (baton passing).  The
`threading` names used by waitress are replaced, in the waitress namespaces, by the cooperative
models below; a thread may be switched out at every lock operation, condition wait / notify,
environment call (socket, pipe, select) and - in modules loaded with statement hooks - before
every statement.  Exploration is pre-emption bounded: switching away from a thread that could
continue costs one pre-emption (at most `bound` per run); switches at blocking points are free.
"""
import threading as _th

from .core import E, Engine, PathAbort, Unsupported, Budget
from . import sxbuiltins, env

CUR = None  # the active Sched (one per process)
_TL = _th.local()  # .sim = the SimThread this OS thread embodies


class Kill(BaseException):
    pass


class SimThread:
    def __init__(self, s, fn, name):
        self.s = s
        self.fn = fn
        self.name = name
        self.state = "ready"  # ready / done
        self.waitfor = None  # callable -> bool : blocked until true
        self.timed = None  # (timeout) when blocked in a timed wait
        self.sem = _th.Semaphore(0)
        self.os = _th.Thread(target=self._run, daemon=True)
        self.exc = None

    def runnable(self):
        return self.state == "ready" and (self.waitfor is None or self.waitfor())

    def _run(self):
        _TL.sim = self
        self.sem.acquire()
        if self.s.dead:
            self.state = "done"
            return
        try:
            self.fn()
        except Kill:
            self.state = "done"
            return
        except (PathAbort, Unsupported, Budget) as e:
            self.s.error = e
        except BaseException as e:  # noqa  a modelled thread died: an observation
            self.exc = e
            self.s.thread_exceptions.append((self.name, "%s: %s" % (type(e).__name__, e)))
        self.state = "done"
        if not self.s.dead:
            try:
                self.s.thread_finished(self)
            except Kill:
                pass


class Sched:
    def __init__(self, bound=2, max_steps=20000):
        self.threads = []
        self.cur = None
        self.preempt = 0
        self.bound = bound
        self.dead = False
        self.error = None
        self.thread_exceptions = []
        self.main_sem = _th.Semaphore(0)
        self.steps = 0
        self.max_steps = max_steps
        self.spinning = False
        self.trace = []  # (thread name, label) at every switch, for counterexample display
        self.nchoices = 0

    # ---- thread management
    def spawn(self, fn, name):
        t = SimThread(self, fn, name)
        self.threads.append(t)
        t.os.start()
        return t

    def runnable(self):
        return [t for t in self.threads if t.runnable()]

    def _choose(self, cands):
        if len(cands) == 1:
            return cands[0]
        self.nchoices += 1
        return cands[E().choose_free(len(cands))]

    def _wake_timed(self):
        """nothing can run: time passes for timed waiters"""
        timed = [t for t in self.threads if t.state == "ready" and t.timed is not None]
        if not timed:
            return False
        t = min(timed, key=lambda x: x.timed)
        env.CLOCK.now += t.timed
        t.timeout_fired = True
        t.waitfor = None
        t.timed = None
        return True

    def switch(self, me, label=None):
        """reschedule; me = running SimThread (or None when called by the driver)"""
        if self.error is not None and me is not None:
            self.cur = None
            self.main_sem.release()
            me.sem.acquire()
            raise Kill()
        self.steps += 1
        if self.steps > self.max_steps:
            self.error = Budget("scheduler step limit (possible livelock)")
            self.cur = None
            self.main_sem.release()
            if me is not None:
                me.sem.acquire()
                raise Kill()
            return
        cands = self.runnable()
        if not cands and self._wake_timed():
            cands = self.runnable()
        forced = False
        if me is not None and label in ("select", "poll"):
            # fairness: a thread that polls again and again without blocking (busy-wait on a try-lock) must let
            # the others run; this switch is not a pre-emption
            me.spins = getattr(me, "spins", 0) + 1
            if me.spins > 6 and len(cands) > 1 and me in cands:
                cands.remove(me)
                forced = True
            elif me.spins > 40 and cands == [me]:
                # the only runnable thread polls again and again without anything changing: a busy loop at
                # (what should be) quiescence.  Park it and report the state to the driver as `spinning`.
                self.spinning = True
                self.cur = None
                self.main_sem.release()
                me.sem.acquire()
                if self.dead:
                    raise Kill()
                me.spins = 0  # the driver resumed the system: carry on polling
                self.cur = me
                return
        if not cands:
            nxt = None
        else:
            if not forced and me is not None and me in cands:
                cands.remove(me)
                cands.insert(0, me)
                if self.preempt >= self.bound:
                    cands = [me]
            nxt = self._choose(cands)
            if not forced and me is not None and me in cands and nxt is not me:
                self.preempt += 1
            if nxt is not me:
                for t in self.threads:
                    t.spins = 0
        if nxt is me and me is not None:
            return
        self.cur = nxt
        if nxt is None:
            self.main_sem.release()
        else:
            self.trace.append((nxt.name, label))
            nxt.sem.release()
        if me is not None:
            me.sem.acquire()
            if self.dead:
                raise Kill()

    def thread_finished(self, me):
        cands = self.runnable()
        if not cands and self._wake_timed():
            cands = self.runnable()
        nxt = self._choose(cands) if cands else None
        self.cur = nxt
        if nxt is None:
            self.main_sem.release()
        else:
            nxt.sem.release()

    def run(self):
        """driver: run until no modelled thread can continue (quiescence) or all are done"""
        if self.error is not None:
            raise self.error
        self.switch(None)
        self.main_sem.acquire()
        self.cur = None
        if self.error is not None:
            raise self.error

    def killall(self):
        self.dead = True
        for t in self.threads:
            if t.state != "done":
                t.sem.release()
        for t in self.threads:
            t.os.join(5)

    def live(self):
        return [t.name for t in self.threads if t.state != "done"]

    def blocked(self):
        return [t.name for t in self.threads if t.state == "ready" and not t.runnable()]


def me():
    _check_zombie()
    s = CUR
    return s.cur if s is not None else None


def _check_zombie():
    """an OS thread of a scheduler that was killed may still be unwinding through `except:` handlers of the
    code under test: it must never run freely - every scheduling point kills it again"""
    sim = getattr(_TL, "sim", None)
    if sim is not None and (sim.s.dead or sim.s is not CUR):
        raise Kill()


def yield_point(label=None):
    _check_zombie()
    s = CUR
    if s is None or s.cur is None:
        return
    s.switch(s.cur, label)


def block_until(cond, label=None, timeout=None):
    """current modelled thread waits until cond() holds; returns False if a timed wait expired"""
    _check_zombie()
    s = CUR
    t = s.cur
    if t is None:
        if not cond():
            raise Unsupported("driver would block: %s" % label)
        return True
    if cond():
        return True
    t.waitfor = cond
    t.timed = timeout
    t.timeout_fired = False
    s.switch(t, label)
    t.waitfor = None
    t.timed = None
    return not t.timeout_fired


# ------------------------------------------------------------------------------------- threading models
class Lock:
    def __init__(self):
        self.owner = None

    def acquire(self, blocking=True, timeout=-1):
        yield_point("lock.acquire")
        t = me() or "driver"
        while self.owner is not None:
            if not blocking:
                return False
            block_until(lambda: self.owner is None, "lock.wait")
        self.owner = t
        return True

    def release(self):
        if self.owner is None:
            raise RuntimeError("release unlocked lock")
        self.owner = None
        yield_point("lock.release")

    def locked(self):
        return self.owner is not None

    def __enter__(self):
        self.acquire()
        return True

    def __exit__(self, *a):
        self.release()


class RLock:
    def __init__(self):
        self.owner = None
        self.count = 0

    def acquire(self, blocking=True, timeout=-1):
        t = me() or "driver"
        if self.owner is t:
            self.count += 1
            return True
        yield_point("rlock.acquire")
        while self.owner is not None:
            if not blocking:
                return False
            block_until(lambda: self.owner is None, "rlock.wait")
        self.owner = t
        self.count = 1
        return True

    def release(self):
        t = me() or "driver"
        if self.owner is not t:
            raise RuntimeError("cannot release un-acquired lock")
        self.count -= 1
        if self.count == 0:
            self.owner = None
            yield_point("rlock.release")

    def _is_owned(self):
        return self.owner is (me() or "driver")

    def __enter__(self):
        self.acquire()
        return True

    def __exit__(self, *a):
        self.release()


class Condition:
    def __init__(self, lock=None):
        self.lock = lock if lock is not None else RLock()
        self.waiters = []
        self.acquire = self.lock.acquire
        self.release = self.lock.release

    def __enter__(self):
        return self.lock.__enter__()

    def __exit__(self, *a):
        return self.lock.__exit__(*a)

    def _owned(self):
        t = me() or "driver"
        return self.lock.owner is t

    def wait(self, timeout=None):
        if not self._owned():
            raise RuntimeError("cannot wait on un-acquired lock")
        tok = [False]
        self.waiters.append(tok)
        saved = getattr(self.lock, "count", 1)
        self.lock.owner = None
        if hasattr(self.lock, "count"):
            self.lock.count = 0
        t = me() or "driver"
        notified = block_until(lambda: tok[0], "cond.wait", timeout=timeout)
        if not notified and tok in self.waiters:
            self.waiters.remove(tok)
        while self.lock.owner is not None:
            block_until(lambda: self.lock.owner is None, "cond.reacquire")
        self.lock.owner = t
        if hasattr(self.lock, "count"):
            self.lock.count = saved
        return notified

    def notify(self, n=1):
        if not self._owned():
            raise RuntimeError("cannot notify on un-acquired lock")
        for tok in self.waiters[:n]:
            tok[0] = True
        del self.waiters[:n]
        yield_point("cond.notify")

    def notify_all(self):
        self.notify(len(self.waiters))

    notifyAll = notify_all


class Thread:
    def __init__(self, group=None, target=None, name=None, args=(), kwargs=None, daemon=None):
        self.target = target
        self.args = args
        self.kwargs = kwargs or {}
        self.name = name
        self.daemon = daemon

    def start(self):
        CUR.spawn(lambda: self.target(*self.args, **self.kwargs), self.name or "thread")
        yield_point("thread.start")

    def join(self, timeout=None):
        raise Unsupported("Thread.join under the scheduler")


class ThreadingShim:
    Lock = Lock
    RLock = RLock
    Condition = Condition
    Thread = Thread

    @staticmethod
    def current_thread():
        return me()

    @staticmethod
    def get_ident():
        return id(me())


YIELD_FUNCS = None  # None = every instrumented statement; else a set of "module.Class.method" prefixes


def _line_hook(mod, func, lineno):
    if YIELD_FUNCS is not None and (mod + "." + func) not in YIELD_FUNCS:
        return
    yield_point((mod, func, lineno))


def install(s, yield_funcs=None):
    """make s the active scheduler and route statement hooks to it"""
    global CUR, YIELD_FUNCS
    CUR = s
    YIELD_FUNCS = yield_funcs
    sxbuiltins.set_yield_hook(_line_hook if s is not None else None)
