"""AST-instrumenting import of the CURRENT /repo/src/waitress working tree.

Two private copies are made available in this process, both compiled from the same files on
every run (nothing is cached on disk, nothing in /repo is touched):

  waitress.*   instrumented: method calls, builtin calls, f-strings, %, `in`, dict displays (opt-in),
               function-entry and per-statement hooks are routed through wsx.sxbuiltins, which
               delegate to the native operation whenever all operands are concrete;
  wplain.*     the same sources with only `waitress` -> `wplain` import renaming: the
               uninstrumented implementation used for the per-path concolic cross-check.
"""
import ast
import hashlib
import importlib.abc
import importlib.util
import os
import sys

from . import sxbuiltins

SRC = os.environ.get("WSX_WAITRESS_SRC", "/repo/src/waitress")

FUNC_HASH = {}  # "module.qualname" -> sha1 of the function's source text
CONFIG = {
    "yield_modules": set(),  # module basenames that get a scheduler hook before every statement
    "dict_modules": {"task"},  # module basenames whose in-function dict displays become SymDict-capable
    "post_exec": {},  # module fullname -> callable(module)
}


class Instrument(ast.NodeTransformer):
    def __init__(self, modname, src, yields, dicts):
        self.modname = modname
        self.src = src
        self.yields = yields
        self.dicts = dicts
        self.scope = []
        self.func_depth = 0
        self.shadowed = set()

    # ---- expressions
    def visit_Call(self, node):
        self.generic_visit(node)
        f = node.func
        if isinstance(f, ast.Attribute) and isinstance(f.ctx, ast.Load):
            if any(isinstance(a, ast.Starred) for a in node.args) or True:
                return ast.copy_location(
                    ast.Call(func=ast.Name("__sx_call__", ast.Load()),
                             args=[f.value, ast.Constant(f.attr)] + node.args, keywords=node.keywords), node)
        if isinstance(f, ast.Name) and f.id in sxbuiltins.REWRITTEN_BUILTINS and f.id not in self.shadowed:
            node.func = ast.copy_location(ast.Name("__sx_%s__" % f.id, ast.Load()), f)
        return node

    def visit_JoinedStr(self, node):
        self.generic_visit(node)
        parts = []
        for v in node.values:
            if isinstance(v, ast.Constant):
                parts.append(v)
            else:
                spec = v.format_spec if v.format_spec is not None else ast.Constant("")
                parts.append(ast.Call(ast.Name("__sx_fmt__", ast.Load()), [v.value, ast.Constant(v.conversion), spec], []))
        return ast.copy_location(ast.Call(ast.Name("__sx_fstr__", ast.Load()), parts, []), node)

    def visit_FormattedValue(self, node):
        self.generic_visit(node)
        return node

    def visit_BinOp(self, node):
        self.generic_visit(node)
        if isinstance(node.op, ast.Mod):
            return ast.copy_location(ast.Call(ast.Name("__sx_mod__", ast.Load()), [node.left, node.right], []), node)
        return node

    def visit_Compare(self, node):
        self.generic_visit(node)
        if len(node.ops) == 1 and isinstance(node.ops[0], (ast.In, ast.NotIn)):
            return ast.copy_location(
                ast.Call(ast.Name("__sx_in__", ast.Load()),
                         [node.left, node.comparators[0], ast.Constant(isinstance(node.ops[0], ast.NotIn))], []), node)
        return node

    def _cast_table(self, node):
        # `("port", int)` : builtin casts referenced as values inside tuple / list displays
        self.generic_visit(node)
        for i, e in enumerate(node.elts):
            if isinstance(e, ast.Name) and isinstance(e.ctx, ast.Load) and e.id in ("int", "str") and e.id not in self.shadowed:
                node.elts[i] = ast.copy_location(ast.Name("__sx_%s__" % e.id, ast.Load()), e)
        return node

    visit_Tuple = visit_List = _cast_table

    def visit_Subscript(self, node):
        self.generic_visit(node)
        if isinstance(node.ctx, ast.Load) and isinstance(node.slice, ast.Slice):
            sl = node.slice
            none = ast.Constant(None)
            return ast.copy_location(
                ast.Call(ast.Name("__sx_getslice__", ast.Load()),
                         [node.value, sl.lower or none, sl.upper or none, sl.step or none], []), node)
        return node

    def visit_Dict(self, node):
        self.generic_visit(node)
        if self.dicts and self.func_depth > 0 and all(k is not None for k in node.keys):
            return ast.copy_location(ast.Call(ast.Name("__sx_dictdisplay__", ast.Load()), [node], []), node)
        return node

    # ---- statements
    def _body(self, body, enter=None):
        out = []
        first = True
        for s in body:
            is_doc = first and isinstance(s, ast.Expr) and isinstance(s.value, ast.Constant) and isinstance(s.value.value, str)
            if first and not is_doc and enter is not None:
                out.append(enter)
                enter = None
            if is_doc:
                out.append(s)
                if enter is not None:
                    out.append(enter)
                    enter = None
                first = False
                continue
            first = False
            if self.yields:
                y = ast.Expr(ast.Call(ast.Name("__sx_yield__", ast.Load()),
                                      [ast.Constant(self.modname.split(".")[-1]), ast.Constant(".".join(self.scope)), ast.Constant(getattr(s, "lineno", 0))], []))
                out.append(ast.copy_location(y, s))
            out.append(s)
        return out

    def _visit_block_fields(self, node):
        if self.yields:
            for field in ("body", "orelse", "finalbody"):
                b = getattr(node, field, None)
                if isinstance(b, list) and b and isinstance(b[0], ast.stmt):
                    setattr(node, field, self._body(b))
            for h in getattr(node, "handlers", []) or []:
                h.body = self._body(h.body)

    def visit_FunctionDef(self, node):
        self.scope.append(node.name)
        qual = "%s.%s" % (self.modname, ".".join(self.scope))
        seg = ast.get_source_segment(self.src, node) or ""
        FUNC_HASH[qual] = hashlib.sha1(seg.encode()).hexdigest()[:12]
        self.func_depth += 1
        self.generic_visit(node)
        self.func_depth -= 1
        self.scope.pop()
        enter = ast.copy_location(ast.Expr(ast.Call(ast.Name("__sx_enter__", ast.Load()), [ast.Constant(qual)], [])), node)
        node.body = self._body(node.body, enter)
        return node

    visit_AsyncFunctionDef = visit_FunctionDef

    def visit_ClassDef(self, node):
        self.scope.append(node.name)
        self.generic_visit(node)
        self.scope.pop()
        return node

    def visit_If(self, node):
        self.generic_visit(node)
        self._visit_block_fields(node)
        return node

    visit_For = visit_While = visit_With = visit_Try = visit_If


class RenameImports(ast.NodeTransformer):
    def visit_ImportFrom(self, node):
        if node.level == 0 and node.module and (node.module == "waitress" or node.module.startswith("waitress.")):
            node.module = "wplain" + node.module[len("waitress"):]
        return node

    def visit_Import(self, node):
        for a in node.names:
            if a.name == "waitress" or a.name.startswith("waitress."):
                if a.asname is None:
                    raise ImportError("wplain: bare `import waitress...` is not supported")
                a.name = "wplain" + a.name[len("waitress"):]
        return node


def _module_level_shadows(tree):
    names = set()
    for n in ast.walk(tree):
        if isinstance(n, (ast.FunctionDef, ast.ClassDef)) and n.name in sxbuiltins.REWRITTEN_BUILTINS:
            names.add(n.name)
        elif isinstance(n, ast.Name) and isinstance(n.ctx, ast.Store) and n.id in sxbuiltins.REWRITTEN_BUILTINS:
            names.add(n.id)
        elif isinstance(n, ast.arg) and n.arg in sxbuiltins.REWRITTEN_BUILTINS:
            names.add(n.arg)
    return names


class Loader(importlib.abc.Loader):
    def __init__(self, path, fullname, plain):
        self.path = path
        self.fullname = fullname
        self.plain = plain

    def create_module(self, spec):
        return None

    def exec_module(self, module):
        with open(self.path) as f:
            src = f.read()
        tree = ast.parse(src, self.path)
        base = self.fullname.split(".", 1)[1] if "." in self.fullname else "__init__"
        if self.plain:
            tree = RenameImports().visit(tree)
        else:
            tr = Instrument(self.fullname, src, base in CONFIG["yield_modules"], base in CONFIG["dict_modules"])
            tr.shadowed = _module_level_shadows(tree)
            tree = tr.visit(tree)
            module.__dict__.update(sxbuiltins.INJECT)
            module.__dict__["__builtins__"] = _instrumented_builtins()
        ast.fix_missing_locations(tree)
        code = compile(tree, self.path, "exec")
        exec(code, module.__dict__)
        hook = CONFIG["post_exec"].get(self.fullname)
        if hook is not None:
            hook(module)


IMPORT_SHIMS = {}  # module name -> replacement module object, for `import` statements executed inside
#                     instrumented waitress code (e.g. `from tempfile import TemporaryFile` in buffers.py)
_ib = [None]


def _instrumented_builtins():
    if _ib[0] is None:
        import builtins
        d = dict(vars(builtins))
        real_import = builtins.__import__

        def sx_import(name, globals=None, locals=None, fromlist=(), level=0):
            if level == 0 and name in IMPORT_SHIMS:
                return IMPORT_SHIMS[name]
            return real_import(name, globals, locals, fromlist, level)

        d["__import__"] = sx_import
        _ib[0] = d
    return _ib[0]


class Finder(importlib.abc.MetaPathFinder):
    def find_spec(self, name, path, target=None):
        top = name.split(".")[0]
        if top not in ("waitress", "wplain"):
            return None
        rel = name.split(".")[1:]
        p = os.path.join(SRC, *rel)
        plain = top == "wplain"
        if os.path.isdir(p):
            init = os.path.join(p, "__init__.py")
            return importlib.util.spec_from_file_location(name, init, loader=Loader(init, name, plain), submodule_search_locations=[p])
        if os.path.exists(p + ".py"):
            return importlib.util.spec_from_file_location(name, p + ".py", loader=Loader(p + ".py", name, plain))
        return None


_installed = [False]


def install(yield_modules=(), dict_modules=None, post_exec=None):
    """must be called before the first `import waitress`"""
    if "waitress" in sys.modules and not _installed[0]:
        raise RuntimeError("waitress was imported before wsx.loader.install()")
    CONFIG["yield_modules"] = set(yield_modules)
    if dict_modules is not None:
        CONFIG["dict_modules"] = set(dict_modules)
    if post_exec:
        CONFIG["post_exec"].update(post_exec)
    if not _installed[0]:
        sys.meta_path.insert(0, Finder())
        _installed[0] = True


def source_digest():
    """sha1 over all waitress source files of the working tree (reported in evidence)"""
    h = hashlib.sha1()
    for fn in sorted(os.listdir(SRC)):
        if fn.endswith(".py"):
            with open(os.path.join(SRC, fn), "rb") as f:
                h.update(fn.encode())
                h.update(f.read())
    return h.hexdigest()
