"""Environment for harnesses: preparation of the instrumented / plain waitress copies, logger and
clock stubs, simulated sockets, a sequential server object."""
import importlib
import importlib.util
import os
import sys
import time as _time
import urllib.parse as _real_parse

from . import loader
from .core import Unsupported, active, E, SymInt
from .data import SymBytes, SymSeq, SymStr, lift
from .regex import SymPattern, wrap_module_patterns


# ------------------------------------------------------------------------------ loggers
class CapLogger:
    """captures (level, template) without ever formatting arguments"""

    def __init__(self, name):
        self.name = name
        self.records = []

    def _log(self, level, msg, *a, **k):
        self.records.append((level, msg if isinstance(msg, str) else "<sym>"))

    def debug(self, m, *a, **k): self._log("debug", m)
    def info(self, m, *a, **k): self._log("info", m)
    def warning(self, m, *a, **k): self._log("warning", m)
    warn = warning
    def error(self, m, *a, **k): self._log("error", m)
    def exception(self, m, *a, **k): self._log("exception", m)
    def critical(self, m, *a, **k): self._log("critical", m)
    def log(self, lvl, m, *a, **k): self._log(str(lvl), m)
    def isEnabledFor(self, lvl): return True
    level = 20
    def setLevel(self, lvl): self.level = lvl
    def reset(self): self.records = []


LOGGERS = {}


def _stub_loggers(mod):
    for nm in ("logger", "queue_logger"):
        lg = CapLogger(mod.__name__ + "." + nm)
        LOGGERS[mod.__name__ + "." + nm] = lg
        setattr(mod, nm, lg)


def reset_loggers():
    for lg in LOGGERS.values():
        lg.reset()


def log_records(prefix="waitress"):
    out = []
    for k, lg in LOGGERS.items():
        if k.startswith(prefix + "."):
            out.extend(lg.records)
    return out


# ------------------------------------------------------------------------------ clock
class Clock:
    """stands in for the `time` module inside waitress namespaces"""

    def __init__(self):
        self.now = 1700000000.0
        self.sleeps = 0

    def time(self):
        return self.now

    def sleep(self, t):
        self.sleeps += 1

    @staticmethod
    def gmtime(when=None):
        # the clock value may be symbolic (C18); the Date header content is not under test
        return _time.gmtime(1700000000 if not isinstance(when, (int, float)) else when)
    strftime = staticmethod(_time.strftime)
    monotonic = time


CLOCK = Clock()


class FakeTraceback:
    @staticmethod
    def format_exc(*a, **k):
        return "Traceback (most recent call last): <stub>"


# ------------------------------------------------------------------------------ urllib.parse under the instrumentation
class _ParseShim:
    """namespace standing in for `urllib.parse` inside waitress.parser: urlsplit executes the
    interpreter's own urllib/parse.py source under the same instrumentation when the argument is
    symbolic (the lru_cache wrapper, which hashes its argument, is bypassed)."""

    def __init__(self, inst):
        self._inst = inst

    def urlsplit(self, url, *a, **k):
        if isinstance(url, SymSeq):
            return self._inst.urlsplit.__wrapped__(url, *a, **k)
        return _real_parse.urlsplit(url, *a, **k)

    def __getattr__(self, name):
        return getattr(_real_parse, name)


_HEX = {}
for _a in "0123456789abcdefABCDEF":
    for _b in "0123456789abcdefABCDEF":
        _HEX[(ord(_a), ord(_b))] = int(_a + _b, 16)


def sym_unquote_to_bytes(s):
    """model of urllib.parse.unquote_to_bytes for SymBytes (validated per path by the concolic run)"""
    if not isinstance(s, SymSeq):
        return _real_parse.unquote_to_bytes(s)
    if isinstance(s, SymStr):
        s = s.encode("utf-8")
    import z3
    R = SymSeq._crange
    dec = SymSeq._decide

    def hexval(c):
        if isinstance(c, int):
            ch = chr(c)
            return int(ch, 16) if ch in "0123456789abcdefABCDEF" else None
        if dec(R(c, 48, 57)):
            return c - 48
        if dec(R(c, 97, 102)):
            return c - 87
        if dec(R(c, 65, 70)):
            return c - 55
        return None

    out = []
    cells = s.c
    i, n = 0, len(cells)
    while i < n:
        c = cells[i]
        if i + 2 <= n - 1 and dec(s._ceq(c, 37)):
            h = hexval(cells[i + 1])
            l = hexval(cells[i + 2]) if h is not None else None
            if h is not None and l is not None:
                if isinstance(h, int) and isinstance(l, int):
                    out.append(h * 16 + l)
                else:
                    hz = z3.BitVecVal(h, 8) if isinstance(h, int) else h
                    lz = z3.BitVecVal(l, 8) if isinstance(l, int) else l
                    out.append(z3.simplify(hz * 16 + lz))
                i += 3
                continue
        out.append(c)
        i += 1
    return SymBytes(out).simplify()


# ------------------------------------------------------------------------------ preparation
_prepared = {}
MODS = ("utilities", "rfc7230", "buffers", "receiver", "parser", "task", "proxy_headers", "wasyncore", "trigger",
        "adjustments", "channel", "server", "runner")


def load_instrumented(path, name):
    spec = importlib.util.spec_from_file_location(name, path, loader=loader.Loader(path, name, False))
    mod = importlib.util.module_from_spec(spec)
    sys.modules[name] = mod
    spec.loader.exec_module(mod)
    return mod


def prepare(yield_modules=(), dict_modules=None):
    """install the loader, import both copies, stub loggers / clock / traceback, wrap patterns.
    Returns (W, P): namespaces with the instrumented and the plain modules."""
    if _prepared:
        return _prepared["W"], _prepared["P"]
    loader.install(yield_modules=yield_modules, dict_modules=dict_modules,
                   post_exec={"waitress.utilities": _stub_loggers, "wplain.utilities": _stub_loggers})

    class NS:
        pass

    W, P = NS(), NS()
    for top, ns in (("waitress", W), ("wplain", P)):
        for m in MODS:
            setattr(ns, m, importlib.import_module("%s.%s" % (top, m)))
        for m in ("channel", "task", "server"):
            getattr(ns, m).time = CLOCK
        ns.channel.traceback = FakeTraceback
    # symbolic models of C-level objects, instrumented copy only
    for m in MODS:
        wrap_module_patterns(getattr(W, m))
    inst_parse = load_instrumented(_real_parse.__file__, "wsx_urllib_parse")
    W.parser.parse = _ParseShim(inst_parse)
    W.parser.unquote_to_bytes = sym_unquote_to_bytes
    from . import files
    import types
    tf = types.ModuleType("tempfile")
    import tempfile as _rt
    tf.__dict__.update({k: v for k, v in vars(_rt).items() if not k.startswith("__")})
    tf.TemporaryFile = files.TemporaryFile
    loader.IMPORT_SHIMS["tempfile"] = tf
    W.buffers.BytesIO = files.BytesIO
    W.parser.BytesIO = files.BytesIO
    from .containers import enable_symdict_displays
    enable_symdict_displays(True)
    W._is_instrumented = True
    P._is_instrumented = False
    _prepared["W"], _prepared["P"] = W, P
    return W, P


# ------------------------------------------------------------------------------ sockets / server for sequential harnesses
class SimSocket:
    """connected client socket as seen by the server; `accept` = list of per-send byte budgets
    (None = accept everything)."""

    def __init__(self, fd=7, sndbuf=65536, accept=None):
        self.fd = fd
        self.sndbuf = sndbuf
        self.sent = []  # pieces as given (bytes / SymBytes)
        self.closed = 0
        self.accept = accept
        self.nsend = 0
        self.inbox = []
        self.fail_send = None

    def getsockopt(self, level, opt):
        return self.sndbuf

    def setsockopt(self, *a):
        pass

    def setblocking(self, flag):
        pass

    def fileno(self):
        return self.fd

    def getpeername(self):
        return ("127.0.0.1", 50000)

    def send(self, data):
        if self.closed:
            raise OSError(9, "Bad file descriptor")
        self.nsend += 1
        if self.fail_send is not None:
            exc = self.fail_send(self.nsend)
            if exc is not None:
                raise exc
        n = len(data)
        if self.accept is not None and self.accept:
            k = self.accept.pop(0)
            if k is not None and k < n:
                n = k
        if n:
            self.sent.append(data[:n])
        return n

    def recv(self, n):
        if self.inbox:
            return self.inbox.pop(0)
        return b""

    def close(self):
        self.closed += 1

    def wire(self):
        out = []
        for p in self.sent:
            out.extend(lift(p).c)
        return SymBytes(out).simplify()


class SeqDispatcher:
    """synchronous stand-in for the task dispatcher: remembers queued channels; the harness
    decides when they are serviced"""

    def __init__(self):
        self.queue = []

    def add_task(self, task):
        self.queue.append(task)

    def run_all(self, limit=50):
        n = 0
        while self.queue:
            t = self.queue.pop(0)
            t.service()
            n += 1
            if n > limit:
                raise Unsupported("SeqDispatcher: too many tasks (spin)")
        return n

    def shutdown(self, *a, **k):
        pass

    def set_thread_count(self, n):
        pass


class SeqServer:
    """minimal server object exposing what HTTPChannel / Task use"""

    def __init__(self, adj, application):
        self.adj = adj
        self.application = application
        self.active_channels = {}
        self.effective_port = 8080
        self.effective_host = "127.0.0.1"
        self.server_name = adj.server_name
        self.task_dispatcher = SeqDispatcher()
        self.triggers = 0

    def add_task(self, task):
        self.task_dispatcher.add_task(task)

    def pull_trigger(self):
        self.triggers += 1


def real_namespace():
    """the pristine modules (plain `import waitress`), with the same logger / clock / traceback stubs"""
    import importlib

    class NS:
        pass

    R = NS()
    for m in MODS:
        setattr(R, m, importlib.import_module("waitress.%s" % m))
    _stub_loggers(R.utilities)
    for m in MODS:
        mod = getattr(R, m)
        for nm in ("logger", "queue_logger"):
            if hasattr(mod, nm) and m != "utilities":
                setattr(mod, nm, getattr(R.utilities, nm))
        for cls in vars(mod).values():
            if isinstance(cls, type) and "logger" in vars(cls):
                cls.logger = R.utilities.logger
            if isinstance(cls, type) and "queue_logger" in vars(cls):
                cls.queue_logger = R.utilities.queue_logger
    for m in ("channel", "task", "server"):
        getattr(R, m).time = CLOCK
    R.channel.traceback = FakeTraceback
    R._is_instrumented = False
    return R
