"""wsx core: path exploration (decision-prefix DFS) over z3, SymBool / SymInt proxies.

One Engine explores one *job*: a harness function is re-executed from scratch
for every path, following a recorded prefix of branch outcomes; at every new
symbolic decision both outcomes are checked for feasibility with the
incremental solver.  A path ends when the harness function returns.
"""
import time

import z3


class PathAbort(BaseException):
    """Current path is infeasible (or assumed away)."""


class Unsupported(BaseException):
    """The engine cannot model an operation: the job becomes inconclusive."""


class Budget(BaseException):
    """Time / path / decision budget exhausted: the job becomes inconclusive."""


class Engine:
    cur = None  # engine running in this process (one at a time)

    def __init__(self, solver_timeout_ms=60000, max_paths=None, max_decisions=100000, deadline=None):
        self.solver = z3.Solver()
        self.solver.set("timeout", solver_timeout_ms)
        self.max_paths = max_paths
        self.max_decisions = max_decisions
        self.deadline = deadline
        self.stats = dict(paths=0, aborted=0, decisions=0, forks=0, solver_calls=0, solver_time=0.0, unknown=0)
        self.violations = []  # candidate counterexamples (concretised)
        self.unsupported = []  # reasons (inconclusive)
        self.goals = {}  # reachability goals hit -> count
        self.samples = []
        # per path
        self.trace = []
        self.prefix = []
        self.pos = 0
        self.nvars = 0
        self.model = None
        self.inputs = {}
        self.sticky = None
        self.path_notes = []
        self.free_choices = []

    # ------------------------------------------------------------------ exploration
    def explore(self, fn, on_path=None):
        """Run fn() once per feasible path.  on_path(engine, result) is called at the end of
        each completed path while the engine still holds the path condition."""
        prev = Engine.cur
        Engine.cur = self
        prefix = []
        try:
            while True:
                self.trace = []
                self.prefix = prefix
                self.pos = 0
                self.nvars = 0
                self.solver.reset()
                self.model = None
                self.inputs = {}
                self.sticky = None
                self.path_notes = []
                self.assumed = []
                self.free_choices = []
                try:
                    r = fn()
                    if self.sticky is not None:
                        raise Unsupported(self.sticky)
                    if on_path is not None:
                        on_path(self, r)
                    self.stats["paths"] += 1
                except PathAbort:
                    self.stats["aborted"] += 1
                except Unsupported as e:
                    self.unsupported.append(repr(e.args[0] if e.args else e)[:300])
                    self.stats["aborted"] += 1
                    if len(self.unsupported) > 20:
                        break
                except Budget as e:
                    self.unsupported.append("budget: %s" % (e.args[0] if e.args else ""))
                    break
                if self.max_paths is not None and self.stats["paths"] + self.stats["aborted"] >= self.max_paths:
                    tr = self.trace
                    while tr and not tr[-1][1]:
                        tr.pop()
                    if tr:
                        self.unsupported.append("budget: max_paths reached with unexplored alternatives")
                    break
                if self.deadline is not None and time.time() > self.deadline:
                    self.unsupported.append("budget: deadline reached")
                    break
                tr = self.trace
                while tr and not tr[-1][1]:
                    tr.pop()
                if not tr:
                    break
                prefix = [list(e) for e in tr]
                last = prefix[-1]
                if len(last) == 3:   # free n-ary choice: next alternative
                    last[0] += 1
                    last[1] = last[0] < last[2] - 1
                else:
                    prefix[-1] = [not last[0], False]
        finally:
            Engine.cur = prev
        return self

    # ------------------------------------------------------------------ variables
    def fresh_name(self, name):
        self.nvars += 1
        return "%s!%d" % (name, self.nvars)

    def fresh_bv(self, name, bits=8):
        return z3.BitVec(self.fresh_name(name), bits)

    def fresh_int(self, name, lo=None, hi=None):
        v = z3.Int(self.fresh_name(name))
        if lo is not None:
            self.solver.add(v >= lo)
        if hi is not None:
            self.solver.add(v <= hi)
        self.model = None
        return SymInt(v)

    def fresh_bool(self, name):
        return SymBool(z3.Bool(self.fresh_name(name)))

    def register_input(self, name, value):
        self.inputs[name] = value
        return value

    # ------------------------------------------------------------------ solver
    def check(self, *extra):
        t = time.time()
        if extra:
            self.solver.push()
            self.solver.add(*extra)
        r = self.solver.check()
        m = self.solver.model() if r == z3.sat else None
        if extra:
            self.solver.pop()
        self.stats["solver_calls"] += 1
        self.stats["solver_time"] += time.time() - t
        if r == z3.unknown:
            self.stats["unknown"] += 1
            raise Unsupported("solver returned unknown: %s" % self.solver.reason_unknown())
        return r == z3.sat, m

    def current_model(self):
        if self.model is None:
            ok, m = self.check()
            if not ok:
                raise PathAbort()
            self.model = m
        return self.model

    def branch(self, cond):
        """cond: z3 BoolRef -> concrete bool; records the decision."""
        if isinstance(cond, bool):
            return cond
        cond = z3.simplify(cond)
        if z3.is_true(cond):
            return True
        if z3.is_false(cond):
            return False
        self.stats["decisions"] += 1
        if self.pos >= self.max_decisions:
            raise Budget("max_decisions on one path")
        if self.pos < len(self.prefix):
            ent = self.prefix[self.pos]
            if len(ent) != 2:
                raise Unsupported("non-deterministic replay: expected a free choice, got a data decision")
            v, alt = ent
            self.pos += 1
            self.trace.append([v, alt])
            self.solver.add(cond if v else z3.Not(cond))
            self.model = None
            return v
        mv = None
        if self.model is not None:
            mv = z3.is_true(self.model.eval(cond, model_completion=True))
        if mv is None:
            sat_t, m_t = self.check(cond)
            if sat_t:
                sat_f, m_f = self.check(z3.Not(cond))
            else:
                sat_f, m_f = True, None  # pc is satisfiable by invariant
        elif mv:
            sat_t, m_t = True, self.model
            sat_f, m_f = self.check(z3.Not(cond))
        else:
            sat_f, m_f = True, self.model
            sat_t, m_t = self.check(cond)
        if sat_t and sat_f:
            self.stats["forks"] += 1
            v = True
            self.trace.append([True, True])
            self.model = m_t
        elif sat_t:
            v = True
            self.trace.append([True, False])
            self.model = m_t
        elif sat_f:
            v = False
            self.trace.append([False, False])
            self.model = m_f
        else:
            raise PathAbort()
        self.pos += 1
        self.solver.add(cond if v else z3.Not(cond))
        return v

    def assume(self, cond, why=None):
        c = tobool(cond)
        c = z3.simplify(c)
        if z3.is_true(c):
            return
        if z3.is_false(c):
            raise PathAbort()
        self.solver.add(c)
        if self.model is not None and not z3.is_true(self.model.eval(c, model_completion=True)):
            self.model = None
        if self.model is None:
            ok, m = self.check()
            if not ok:
                raise PathAbort()
            self.model = m

    def choose_free(self, n):
        """an unconstrained finite-domain symbolic choice (e.g. a scheduling decision): every value is
        feasible, so no solver query is spent; the decision is part of the path like any other"""
        if n <= 1:
            return 0
        self.stats["decisions"] += 1
        if self.pos < len(self.prefix):
            e = self.prefix[self.pos]
            if len(e) != 3 or e[2] != n:
                raise Unsupported("non-deterministic replay: free choice arity changed (%r vs %d)" % (e, n))
            self.pos += 1
            self.trace.append(list(e))
            self.free_choices.append(e[0])
            return e[0]
        self.pos += 1
        self.trace.append([0, True, n])
        self.stats["forks"] += 1
        self.free_choices.append(0)
        return 0

    def choose(self, n, name="ch"):
        """symbolic choice in range(n), resolved by forking.  A job may pin a labelled choice (Engine.forced) - that is how one job is
        sharded into several that together cover the same decision tree."""
        if n <= 1:
            return 0
        f = getattr(self, "forced", None)
        if f and name in f:
            if f[name] >= n:
                raise PathAbort()
            return f[name]
        v = z3.Int(self.fresh_name(name))
        self.solver.add(v >= 0, v < n)
        self.model = None
        for i in range(n - 1):
            if self.branch(v == i):
                return i
        return n - 1

    # ------------------------------------------------------------------ assertions
    def require(self, cond, label, detail=None, excl=None):
        """Assertion.  cond: bool / SymBool / z3 Bool.  Records a candidate counterexample if
        pc & ~cond (& ~excl) is satisfiable; continues the path under cond."""
        c = z3.simplify(tobool(cond))
        if z3.is_true(c):
            return True
        neg = [z3.Not(c)]
        if excl:
            neg += [z3.Not(tobool(e)) for e in excl]
        ok, m = self.check(*neg)
        if ok:
            cin = conc(self.inputs, m)
            if self.free_choices and isinstance(cin, dict):
                cin["__schedule__"] = list(self.free_choices)
            self.violations.append(dict(label=label, inputs=cin, detail=conc(detail, m) if detail is not None else None))
        if z3.is_false(c):
            raise PathAbort()
        self.solver.add(c)
        self.model = None
        ok, m = self.check()
        if not ok:
            raise PathAbort()
        self.model = m
        return True

    def goal(self, name):
        self.goals[name] = self.goals.get(name, 0) + 1

    def flag_unsupported(self, why):
        if self.sticky is None:
            self.sticky = why


def E():
    e = Engine.cur
    if e is None:
        raise RuntimeError("no engine active")
    return e


def active():
    return Engine.cur is not None


# ---------------------------------------------------------------------- SymBool / SymInt
class SymBool:
    __slots__ = ("e",)

    def __init__(self, e):
        self.e = e

    def __bool__(self):
        return E().branch(self.e)

    def __invert__(self):
        return mkbool(z3.Not(self.e))

    def __and__(self, o):
        return mkbool(z3.And(self.e, tobool(o)))

    __rand__ = __and__

    def __or__(self, o):
        return mkbool(z3.Or(self.e, tobool(o)))

    __ror__ = __or__

    def __eq__(self, o):
        return mkbool(self.e == tobool(o))

    def __ne__(self, o):
        return mkbool(self.e != tobool(o))

    def __hash__(self):
        return hash(bool(self))

    def __repr__(self):
        return "SymBool(%s)" % self.e


def mkbool(e):
    e = z3.simplify(e)
    if z3.is_true(e):
        return True
    if z3.is_false(e):
        return False
    return SymBool(e)


def tobool(x):
    if isinstance(x, SymBool):
        return x.e
    if isinstance(x, z3.BoolRef):
        return x
    return z3.BoolVal(bool(x))


def s_and(*xs):
    xs = [x for x in xs if x is not True]
    if any(x is False for x in xs):
        return False
    if not xs:
        return True
    return mkbool(z3.And([tobool(x) for x in xs]))


def s_or(*xs):
    xs = [x for x in xs if x is not False]
    if any(x is True for x in xs):
        return True
    if not xs:
        return False
    return mkbool(z3.Or([tobool(x) for x in xs]))


def s_not(x):
    if isinstance(x, bool):
        return not x
    return mkbool(z3.Not(tobool(x)))


def s_ite(c, a, b):
    """if-then-else on SymInt/ints without forking"""
    if isinstance(c, bool):
        return a if c else b
    return mkint(z3.If(tobool(c), toint(a), toint(b)))


class SymInt:
    __slots__ = ("e",)

    def __init__(self, e):
        self.e = e

    @staticmethod
    def _o(o):
        if isinstance(o, SymInt):
            return o.e
        if isinstance(o, bool):
            return z3.IntVal(int(o))
        if isinstance(o, int):
            return z3.IntVal(o)
        return None

    def _cmp(self, o, f):
        oe = self._o(o)
        if oe is None:
            return NotImplemented
        return mkbool(f(self.e, oe))

    def __gt__(self, o): return self._cmp(o, lambda a, b: a > b)
    def __ge__(self, o): return self._cmp(o, lambda a, b: a >= b)
    def __lt__(self, o): return self._cmp(o, lambda a, b: a < b)
    def __le__(self, o): return self._cmp(o, lambda a, b: a <= b)

    def __eq__(self, o):
        oe = self._o(o)
        if oe is None:
            return False
        return mkbool(self.e == oe)

    def __ne__(self, o):
        oe = self._o(o)
        if oe is None:
            return True
        return mkbool(self.e != oe)

    def _ar(self, o, f):
        oe = self._o(o)
        if oe is None:
            return NotImplemented
        return mkint(f(self.e, oe))

    def __add__(self, o): return self._ar(o, lambda a, b: a + b)
    def __radd__(self, o): return self._ar(o, lambda a, b: b + a)
    def __sub__(self, o): return self._ar(o, lambda a, b: a - b)
    def __rsub__(self, o): return self._ar(o, lambda a, b: b - a)
    def __mul__(self, o): return self._ar(o, lambda a, b: a * b)
    def __rmul__(self, o): return self._ar(o, lambda a, b: b * a)
    def __neg__(self): return mkint(-self.e)
    def __pos__(self): return self

    def __floordiv__(self, o):
        # python floor division; z3 div is euclidean: equal for positive divisor
        oe = self._o(o)
        if oe is None:
            return NotImplemented
        if isinstance(o, int) and o > 0:
            return mkint(self.e / oe)
        raise Unsupported("SymInt // non-positive-constant")

    def __mod__(self, o):
        oe = self._o(o)
        if oe is None:
            return NotImplemented
        if isinstance(o, int) and o > 0:
            return mkint(self.e % oe)
        raise Unsupported("SymInt % non-positive-constant")

    def __bool__(self):
        return E().branch(self.e != 0)

    def __hash__(self):
        return hash(self.__index__())

    def __index__(self):
        """concretise by forking on a model value"""
        eng = E()
        while True:
            m = eng.current_model()
            v = m.eval(self.e, model_completion=True).as_long()
            if eng.branch(self.e == v):
                return v

    __int__ = __index__

    def clamp_index(self, n):
        """value used as a slice bound against concrete length n -> concrete index in [0, n]"""
        if self >= n:
            return n
        if self >= 0:
            return self.__index__()
        if self <= -n:
            return 0
        return n + self.__index__()

    def __repr__(self):
        return "SymInt(%s)" % self.e


def mkint(e):
    e = z3.simplify(e)
    if z3.is_int_value(e):
        return e.as_long()
    return SymInt(e)


def toint(x):
    if isinstance(x, SymInt):
        return x.e
    return z3.IntVal(int(x))


def is_sym(x):
    return isinstance(x, (SymBool, SymInt)) or getattr(x, "__wsx_sym__", False)


# ---------------------------------------------------------------------- concretisation
def conc(v, m):
    """evaluate a (nested) value containing proxies under model m -> plain python value"""
    if isinstance(v, SymBool):
        return z3.is_true(m.eval(v.e, model_completion=True))
    if isinstance(v, SymInt):
        return m.eval(v.e, model_completion=True).as_long()
    if isinstance(v, z3.ExprRef):
        r = m.eval(v, model_completion=True)
        if z3.is_bool(r):
            return z3.is_true(r)
        return r.as_long()
    f = getattr(v, "__wsx_conc__", None)
    if f is not None:
        return f(m)
    if isinstance(v, tuple):
        return tuple(conc(x, m) for x in v)
    if isinstance(v, list):
        return [conc(x, m) for x in v]
    if isinstance(v, dict):
        return {conc(k, m): conc(x, m) for k, x in v.items()}
    return v


def sym_equal(a, b):
    """structural equality of two (nested) values -> bool or SymBool, without forking"""
    if isinstance(a, (tuple, list)) and isinstance(b, (tuple, list)):
        if len(a) != len(b):
            return False
        return s_and(*[sym_equal(x, y) for x, y in zip(a, b)])
    f = getattr(a, "__wsx_eq__", None)
    if f is not None:
        return f(b)
    f = getattr(b, "__wsx_eq__", None)
    if f is not None:
        return f(a)
    if isinstance(a, (SymInt, SymBool)):
        return a == b
    if isinstance(b, (SymInt, SymBool)):
        return b == a
    return a == b


class ReplayEngine(Engine):
    """runs a harness once with concrete inputs and a recorded list of free (schedule) choices"""

    def __init__(self, choices):
        Engine.__init__(self)
        self.choices = list(choices)
        self.failed = []

    def choose_free(self, n):
        if n <= 1:
            return 0
        v = self.choices.pop(0) if self.choices else 0
        return v if v < n else 0

    def choose(self, n, name="ch"):
        raise Unsupported("symbolic data choice during a concrete replay")

    def branch(self, cond):
        if isinstance(cond, bool):
            return cond
        c = z3.simplify(cond)
        if z3.is_true(c):
            return True
        if z3.is_false(c):
            return False
        raise Unsupported("symbolic decision during a concrete replay")

    def require(self, cond, label, detail=None, excl=None):
        if not bool(cond):
            self.failed.append(label)
        return True

    def __enter__(self):
        self._prev = Engine.cur
        Engine.cur = self
        return self

    def __exit__(self, *a):
        Engine.cur = self._prev
