"""Symbolic-aware replacements for the builtins and syntactic forms the loader rewrites.

For all-concrete arguments every function delegates to the native operation."""
import builtins
import re
import sys

import z3

from .core import E, SymBool, SymInt, Unsupported, active, mkint, tobool
from .data import BYTES_WS, STR_WS, SymBytes, SymSeq, SymStr, digits_value, format_value, has_sym, lift, sym_format

_MAX_STR_DIGITS = getattr(sys, "get_int_max_str_digits", lambda: 0)()


# ----------------------------------------------------------------------------- int()
def _dec(e):
    if isinstance(e, bool):
        return e
    return E().branch(e)


def sx_int(x=0, base=None):
    if base is None:
        if isinstance(x, SymInt):
            return x
        if isinstance(x, SymBool):
            return mkint(z3.If(x.e, 1, 0))
        if not isinstance(x, SymSeq):
            return builtins.int(x)
        base = 10
    elif not isinstance(x, SymSeq):
        return builtins.int(x, base)
    if base == 0 or not (2 <= base <= 36):
        raise Unsupported("int() with base %r on symbolic input" % base)
    is_str = isinstance(x, SymStr)
    cells = list(x.c)
    if is_str:
        # code points beyond latin-1 are concretised: CPython accepts unicode digits / spaces there
        cells = x._concretize_wide()
        # code points beyond latin-1 (now concrete): unicode spaces count as whitespace, unicode decimal digits as their
        # ASCII digit, anything else makes the literal invalid - exactly CPython's int(str) preprocessing
        norm = []
        for v in cells:
            if isinstance(v, builtins.int) and v > 0xFF:
                ch_ = chr(v)
                if ch_.isspace():
                    v = 32
                elif ch_.isdecimal():
                    v = 48 + builtins.int(ch_)
                else:
                    v = 1
            norm.append(v)
        cells = norm
    # int(str): unicode spaces are whitespace, but not the ASCII separators 0x1c-0x1f (str.strip() treats those as
    # whitespace, int() does not - found by the per-path concolic cross-check)
    ws = tuple(w for w in (STR_WS if is_str else BYTES_WS) if w <= 0xFF and not (is_str and 28 <= w <= 31))
    I = SymSeq._cin
    R = SymSeq._crange
    a, b = 0, len(cells)
    while a < b and _dec(I(cells[a], ws)):
        a += 1
    while b > a and _dec(I(cells[b - 1], ws)):
        b -= 1
    cells = cells[a:b]

    def bad():
        raise ValueError("invalid literal for int() with base %d" % base)

    sign = 1
    if cells and _dec(I(cells[0], (43, 45))):
        if _dec(I(cells[0], (45,))):
            sign = -1
        cells = cells[1:]
    prefix = {16: (88, 120), 8: (79, 111), 2: (66, 98)}.get(base)
    after_prefix = False
    if prefix and len(cells) >= 2 and _dec(I(cells[0], (48,))) and _dec(I(cells[1], prefix)):
        cells = cells[2:]
        after_prefix = True
    if not cells:
        bad()
    digs = []
    ndig = 0
    prev_us = not after_prefix  # True = an underscore is not allowed here
    for c in cells:
        if _dec(I(c, (95,))):
            if prev_us:
                bad()
            prev_us = True
            continue
        prev_us = False
        ndec = min(base, 10)
        if isinstance(c, builtins.int):
            ch_ = chr(c)
            if not (ch_.isascii() and ch_.isalnum()) or builtins.int(ch_, 36) >= base:
                bad()
            d = builtins.int(ch_, 36)
        else:
            # one decision per cell (is it a digit of this base?), the digit value is an ITE term
            c8 = c if c.size() == 8 else z3.Extract(7, 0, c)
            ok_ = R(c, 48, 48 + ndec - 1)
            d = c8 - 48
            if base > 10:
                ok_ = z3.Or(ok_, R(c, 97, 97 + base - 11), R(c, 65, 65 + base - 11))
                d = z3.If(z3.ULE(c8, 57), c8 - 48, z3.If(z3.ULE(c8, 90), c8 - 55, c8 - 87))
            if not _dec(ok_):
                bad()
        ndig += 1
        digs.append(d)
    if prev_us:
        bad()
    if _MAX_STR_DIGITS and ndig > _MAX_STR_DIGITS and (base & (base - 1)) != 0:
        raise ValueError(
            "Exceeds the limit (%d digits) for integer string conversion: value has %d digits; "
            "use sys.set_int_max_str_digits() to increase the limit" % (_MAX_STR_DIGITS, ndig))
    val = digits_value(digs, base)
    return val * sign


# ----------------------------------------------------------------------------- str() & friends
def sx_str(*a, **k):
    if not a:
        return builtins.str(*a, **k)
    x = a[0]
    if isinstance(x, SymStr) and len(a) == 1 and not k:
        return x
    if isinstance(x, SymBytes):
        enc = a[1] if len(a) > 1 else k.get("encoding")
        if enc is None:
            return format_value(x, "r", "")
        return x.decode(enc)
    if isinstance(x, SymInt) and len(a) == 1:
        return format_value(x, None, "")
    if isinstance(x, SymBool) and len(a) == 1:
        return builtins.str(bool(x))
    if len(a) == 1 and not k and has_sym(x):
        return format_value(x, "s", "")
    return builtins.str(*a, **k)


def sx_repr(x):
    if has_sym(x):
        return format_value(x, "r", "")
    return builtins.repr(x)


def sx_bytes(*a, **k):
    if a and isinstance(a[0], SymBytes):
        return a[0]
    if a and isinstance(a[0], SymStr):
        return a[0].encode(*a[1:], **k)
    return builtins.bytes(*a, **k)


def sx_len(x):
    f = getattr(x, "__sx_len__", None)
    if f is not None:
        return f()
    return builtins.len(x)


def sx_hex(x):
    if isinstance(x, SymInt):
        f = getattr(x, "__sx_hex__", None)
        return builtins.hex(x.__index__())
    return builtins.hex(x)


def sx_bool(x=False):
    return builtins.bool(x)


_KIND = ((SymStr, builtins.str), (SymBytes, builtins.bytes), (SymBool, builtins.bool), (SymInt, builtins.int))


def sx_isinstance(obj, cls):
    for symt, real in _KIND:
        if isinstance(obj, symt):
            classes = cls if isinstance(cls, tuple) else (cls,)
            for c in classes:
                if isinstance(c, tuple):
                    if sx_isinstance(obj, c):
                        return True
                elif c is symt or (isinstance(c, type) and issubclass(real, c)):
                    return True
            return False
    sd = getattr(obj, "__wsx_dict__", False)
    if sd:
        classes = cls if isinstance(cls, tuple) else (cls,)
        if builtins.dict in classes:
            return True
    return builtins.isinstance(obj, cls)


def _minmax(args, key, is_min):
    if len(args) == 1:
        args = list(args[0])
    if key is not None or not any(isinstance(a, SymInt) for a in args):
        return (builtins.min if is_min else builtins.max)(args, key=key) if key else (builtins.min if is_min else builtins.max)(args)
    best = args[0]
    for a in args[1:]:
        if (a < best) if is_min else (a > best):
            best = a
    return best


def sx_min(*args, key=None):
    return _minmax(args, key, True)


def sx_max(*args, key=None):
    return _minmax(args, key, False)


def sx_dict(*a, **k):
    if a and getattr(a[0], "__wsx_dict__", False):
        d = a[0].copy()
        for kk, v in k.items():
            d[kk] = v
        return d
    return builtins.dict(*a, **k)


def sx_ord(x):
    if isinstance(x, SymStr):
        if len(x) != 1:
            raise TypeError("ord() expected a character")
        c = x.c[0]
        return c if isinstance(c, builtins.int) else SymInt(z3.BV2Int(c))
    return builtins.ord(x)


# ----------------------------------------------------------------------------- syntactic forms
_DICT_KEYED = {"get", "pop", "setdefault", "__contains__", "__getitem__"}


def sx_eq(a, b):
    r = a == b
    return builtins.bool(r)


def sx_call(obj, name, /, *a, **k):
    """obj.name(*a, **k) with lifting of concrete receivers when an argument is symbolic"""
    if name == "__len__" and not a:
        f = getattr(obj, "__sx_len__", None)
        if f is not None:
            return f()
    if isinstance(obj, (builtins.str, builtins.bytes)) and (a or k) and has_sym(list(a) + list(k.values())):
        if name == "format":
            return sym_format(obj, a, k)
        if name in ("encode", "decode"):
            return getattr(obj, name)(*a, **k)
        return getattr(lift(obj), name)(*a, **k)
    if type(obj) is builtins.dict and a and isinstance(a[0], SymSeq) and name in _DICT_KEYED:
        key = a[0]
        for kk in list(obj.keys()):
            if isinstance(kk, (builtins.str, builtins.bytes)) and sx_eq(key, kk):
                return getattr(obj, name)(kk, *a[1:], **k)
        if name == "setdefault":
            raise Unsupported("dict.setdefault with a new symbolic key on a plain dict")
        if name == "__contains__":
            return False
        if name == "__getitem__":
            raise KeyError(key)
        if len(a) > 1:
            return a[1]
        if name == "pop":
            raise KeyError(key)
        return k.get("default") if name == "get" else None
    return getattr(obj, name)(*a, **k)


def sx_in(x, c, neg):
    if isinstance(x, SymSeq) and isinstance(c, (set, frozenset, builtins.dict, tuple, list)):
        r = False
        for kk in c:
            if sx_eq(x, kk):
                r = True
                break
    elif isinstance(x, SymInt) and isinstance(c, (set, frozenset, tuple, list, range)):
        r = False
        for kk in c:
            if builtins.bool(x == kk):
                r = True
                break
    elif isinstance(c, (builtins.str, builtins.bytes)) and isinstance(x, SymSeq):
        r = x in lift(c)
    else:
        r = x in c
    return (not r) if neg else r


_PCT = re.compile(r"%(?:\((\w+)\))?([-#0 +]*)(\*|\d+)?(?:\.(\*|\d+))?([sdrxXiaoeEfFgGc%])")


def _sym_template_mod(tmpl, r):
    """`template % args` where the template itself holds symbolic characters: positions of '%' and the
    conversion characters are decided by forking; flags / widths / mapping keys in a symbolic position are unsupported"""
    args = r if isinstance(r, tuple) else (r,)
    cells = tmpl.c
    out = []
    ai = 0
    i, n = 0, builtins.len(cells)
    D = SymSeq._decide
    while i < n:
        c = cells[i]
        if not D(tmpl._ceq(c, 37)):
            out.append(c)
            i += 1
            continue
        if i + 1 >= n:
            raise ValueError("incomplete format")
        nx = cells[i + 1]
        if D(tmpl._ceq(nx, 37)):
            out.append(37)
        elif D(SymSeq._cin(nx, (115, 100, 114, 105))):  # s d r i
            if ai >= builtins.len(args):
                raise TypeError("not enough arguments for format string")
            v = args[ai]
            ai += 1
            if D(tmpl._ceq(nx, 115)):
                piece = format_value(v, "s", "") if has_sym(v) else builtins.str(v)
            elif D(tmpl._ceq(nx, 114)):
                piece = format_value(v, "r", "") if has_sym(v) else builtins.repr(v)
            else:
                if isinstance(v, SymInt):
                    piece = format_value(v, None, "")
                elif isinstance(v, builtins.int):
                    piece = builtins.str(v)
                else:
                    raise TypeError("%d format: a real number is required, not " + type(v).__name__)
            out.extend(lift(piece).c)
        elif D(SymSeq._cin(nx, tuple(b"#0- +123456789.*(lhLxXoeEfFgGca"))):
            raise Unsupported("%-format flags / other conversions at a symbolic position")
        else:
            raise ValueError("unsupported format character")
        i += 2
    if ai != builtins.len(args) and not isinstance(r, builtins.dict):
        raise TypeError("not all arguments converted during string formatting")
    return SymStr(out).simplify()


def sx_mod(l, r):
    if isinstance(l, SymStr):
        return _sym_template_mod(l, r)
    if isinstance(l, (builtins.str, builtins.bytes)) and has_sym(r):
        if isinstance(l, builtins.bytes):
            raise Unsupported("bytes %% symbolic")
        args = r if isinstance(r, tuple) else (r,)
        is_map = isinstance(r, builtins.dict) or getattr(r, "__wsx_dict__", False)
        out = []
        pos = 0
        ai = 0
        for m in _PCT.finditer(l):
            out.append(l[pos:m.start()])
            pos = m.end()
            key, flags, width, prec, conv = m.groups()
            if conv == "%":
                out.append("%")
                continue
            if key is not None:
                if not is_map:
                    raise TypeError("format requires a mapping")
                v = r[key]
            else:
                if ai >= len(args):
                    raise TypeError("not enough arguments for format string")
                v = args[ai]
                ai += 1
            if has_sym(v):
                if isinstance(v, SymInt) and conv in "dis" and active() and getattr(E(), "opaque_ints", False):
                    out.append(format_value(v, None, ""))
                elif isinstance(v, SymInt) and conv in "dis":
                    v = v.__index__()
                    out.append(m.group(0).replace("(%s)" % key, "") % v if key else m.group(0) % v)
                elif conv == "s" and not flags and not width and not prec:
                    out.append(format_value(v, "s", ""))
                elif conv == "r":
                    out.append(format_value(v, "r", ""))
                else:
                    raise Unsupported("%%-format %r of symbolic value" % m.group(0))
            else:
                spec = m.group(0).replace("(%s)" % key, "") if key else m.group(0)
                out.append(spec % (v,))
        out.append(l[pos:])
        if key is None and not is_map and ai != len(args):
            raise TypeError("not all arguments converted during string formatting")
        cells = []
        for p in out:
            cells.extend(lift(p).c)
        return SymStr(cells).simplify()
    return l % r


def sx_fstr(*parts):
    if any(isinstance(p, SymSeq) for p in parts):
        cells = []
        for p in parts:
            cells.extend(lift(p).c)
        return SymStr(cells).simplify()
    return "".join(parts)


def sx_fmt(v, conv, spec):
    return format_value(v, None if conv == -1 else chr(conv), spec)


def sx_getslice(x, lo, hi, step):
    """x[lo:hi:step]; symbolic bounds on a concrete sequence are clamped against its length
    (bytes.__getitem__ would call SymInt.__index__ and enumerate every value)"""
    if isinstance(lo, SymInt) or isinstance(hi, SymInt):
        if isinstance(x, (builtins.bytes, builtins.str, list, tuple, bytearray)) and step is None:
            n = builtins.len(x)
            if isinstance(lo, SymInt):
                lo = lo.clamp_index(n)
            if isinstance(hi, SymInt):
                hi = hi.clamp_index(n)
    return x[lo:hi:step]


_entered = set()


def sx_enter(qualname):
    _entered.add(qualname)


def entered_functions():
    return _entered


_yield_hook = [None]


def sx_yield(mod, func, lineno):
    h = _yield_hook[0]
    if h is not None:
        h(mod, func, lineno)


def set_yield_hook(h):
    _yield_hook[0] = h


def sx_dictdisplay(d):
    from .containers import SymDict, symdict_displays_enabled
    if symdict_displays_enabled():
        return SymDict(d)
    return d


INJECT = {
    "__sx_int__": sx_int, "__sx_str__": sx_str, "__sx_repr__": sx_repr, "__sx_bytes__": sx_bytes,
    "__sx_len__": sx_len, "__sx_hex__": sx_hex, "__sx_isinstance__": sx_isinstance, "__sx_min__": sx_min,
    "__sx_max__": sx_max, "__sx_dict__": sx_dict, "__sx_ord__": sx_ord,
    "__sx_call__": sx_call, "__sx_in__": sx_in, "__sx_mod__": sx_mod, "__sx_fstr__": sx_fstr,
    "__sx_fmt__": sx_fmt, "__sx_enter__": sx_enter, "__sx_yield__": sx_yield,
    "__sx_dictdisplay__": sx_dictdisplay, "__sx_getslice__": sx_getslice,
}
REWRITTEN_BUILTINS = ("int", "str", "repr", "bytes", "len", "hex", "isinstance", "min", "max", "dict", "ord")
