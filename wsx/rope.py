"""SymRope: byte data of *symbolic length*.

Content is a list of segments (start, length) of one global reference stream, both possibly z3
integers; used where sizes matter and content only has to be tracked for order / duplication / loss
(buffer histories).  RopeFile models io.BytesIO / TemporaryFile over ropes.  All size relations
(STRBUF_LIMIT, overflow, COPY_BYTES, read sizes) are decided by linear integer arithmetic."""
import z3

from .core import E, SymBool, SymInt, Unsupported, mkbool, mkint, s_and, tobool, toint

PERIOD = bytes(range(251))
_STREAM = [None]


def stream_bytes(a, n):
    """concrete content of the reference stream [a, a+n)"""
    if _STREAM[0] is None:
        _STREAM[0] = PERIOD * ((1 << 22) // 251 + 2)
    s = _STREAM[0]
    if a + n > len(s):
        raise Unsupported("reference stream too short")
    return s[a:a + n]


def _pos(x):
    """bool(x > 0) with a fork for symbolic x"""
    if isinstance(x, SymInt):
        return bool(x > 0)
    return x > 0


class Rope:
    __wsx_sym__ = True

    def __init__(self, segs=()):
        self.segs = [(s, l) for s, l in segs if not (isinstance(l, int) and l == 0)]

    @staticmethod
    def lift(x):
        if isinstance(x, Rope):
            return x
        if isinstance(x, (bytes, bytearray)) and len(x) == 0:
            return Rope()
        raise TypeError("cannot mix a rope with concrete data %r" % (x[:20],))

    def __sx_len__(self):
        n = 0
        for _, l in self.segs:
            n = n + l
        return n

    def __len__(self):
        n = self.__sx_len__()
        if isinstance(n, SymInt):
            return n.__index__()
        return n

    def __bool__(self):
        return _pos(self.__sx_len__())

    def __add__(self, o):
        return Rope(self.segs + Rope.lift(o).segs)

    def __radd__(self, o):
        return Rope(Rope.lift(o).segs + self.segs)

    def split(self, off):
        """(left, right) at absolute offset off (int / SymInt, 0 <= off <= len assumed by the caller)"""
        left, right = [], []
        acc = 0
        done = False
        for s, l in self.segs:
            if done:
                right.append((s, l))
                continue
            rel = off - acc  # offset inside this segment
            if _le(rel, 0):
                right.append((s, l))
                done = True
            elif _le(l, rel):
                left.append((s, l))
                acc = acc + l
            else:
                left.append((s, rel))
                right.append((s + rel, l - rel))
                done = True
        return Rope(left), Rope(right)

    def denotes(self, a):
        """SymBool: the rope is exactly the stream range [a, a + len)"""
        conds = []
        run = 0
        for s, l in self.segs:
            eq = _eqz(s, a + run)
            conds.append(_or(_eqz(l, 0), eq))
            run = run + l
        return s_and(*conds) if conds else True

    def __wsx_conc__(self, m):
        from .core import conc
        out = bytearray()
        for s, l in self.segs:
            out += stream_bytes(conc(s, m), conc(l, m))
        return bytes(out)

    def __repr__(self):
        return "Rope(%r)" % (self.segs,)


def _le(a, b):
    r = a <= b
    return bool(r)


def _eqz(a, b):
    r = a == b
    if isinstance(r, bool):
        return r
    return r


def _or(a, b):
    if a is True or b is True:
        return True
    if a is False:
        return b
    if b is False:
        return a
    return mkbool(z3.Or(tobool(a), tobool(b)))


class RopeFile:
    """io.BytesIO / TemporaryFile('w+b') over ropes; writes must be appends (all buffer code does that)"""
    __wsx_sym__ = True

    def __init__(self, kind="bytesio"):
        self.content = Rope()
        self.pos = 0
        self.closed = False
        self.kind = kind
        self.close_calls = 0

    def _chk(self):
        if self.closed:
            raise ValueError("I/O operation on closed file.")

    def _len(self):
        return self.content.__sx_len__()

    def write(self, data):
        self._chk()
        data = Rope.lift(data)
        if not bool(_eqz(self.pos, self._len())):
            raise Unsupported("RopeFile: write that is not an append")
        n = data.__sx_len__()
        self.content = self.content + data
        self.pos = self.pos + n
        return n

    def read(self, n=-1):
        self._chk()
        total = self._len()
        avail = total - self.pos
        if _le(avail, 0):
            return b""
        if n is None or _le(n, -1):
            take = avail
        elif _le(avail, n):
            take = avail
        else:
            take = n
        _, rest = self.content.split(self.pos)
        out, _ = rest.split(take)
        self.pos = self.pos + take
        return out if out.segs else b""

    def seek(self, off, whence=0):
        self._chk()
        if whence == 0:
            p = off
        elif whence == 1:
            p = self.pos + off
        elif whence == 2:
            p = self._len() + off
        else:
            raise ValueError("invalid whence")
        if _le(p, -1):
            if whence == 0:
                raise ValueError("negative seek value")
            p = 0
        self.pos = p
        return p

    def tell(self):
        self._chk()
        return self.pos

    def seekable(self):
        return True

    def close(self):
        self.close_calls += 1
        self.closed = True


def RopeBytesIO(initial=b""):
    if len(initial):
        raise Unsupported("RopeBytesIO with initial content")
    return RopeFile("bytesio")


def RopeTemporaryFile(mode="w+b", *a, **k):
    return RopeFile("tempfile")
