"""Symbolic model of compiled `re.Pattern` objects over SymBytes / SymStr.

A backtracking matcher in CPython's priority order (greedy / lazy repeats, alternation order,
capture groups), built from the sre parse tree of the pattern object that waitress itself
compiled.  Every cell test on a symbolic cell is a fork.
"""
import re

try:
    import re._parser as sre_parse
    import re._constants as sre_c
except ImportError:  # pragma: no cover  (python < 3.11)
    import sre_parse
    import sre_constants as sre_c

import z3

from .core import E, Unsupported
from .data import SymSeq, SymBytes, SymStr, lift


class SymMatch:
    def __init__(self, s, groups, names, start, end, ngroups):
        self.string = s
        self._g = groups
        self._names = names
        self._start = start
        self._end = end
        self._n = ngroups

    def start(self, k=0):
        return self._start if k == 0 else self._g.get(k, (-1, -1))[0]

    def end(self, k=0):
        return self._end if k == 0 else self._g.get(k, (-1, -1))[1]

    def span(self, k=0):
        return (self.start(k), self.end(k))

    def _one(self, k):
        if isinstance(k, str):
            k = self._names[k]
        if k == 0:
            return self.string[self._start:self._end]
        if k > self._n:
            raise IndexError("no such group")
        if k in self._g:
            a, b = self._g[k]
            return self.string[a:b]
        return None

    def group(self, *ks):
        if not ks:
            ks = (0,)
        r = [self._one(k) for k in ks]
        return r[0] if len(r) == 1 else tuple(r)

    __getitem__ = _one

    def groups(self, default=None):
        return tuple(self._one(k) if k in self._g else default for k in range(1, self._n + 1))


class SymPattern:
    """wraps a real compiled pattern; concrete subjects are delegated to it"""

    def __init__(self, real):
        self.real = real
        self.pattern = real.pattern
        self.flags = real.flags
        self.groups = real.groups
        self.groupindex = real.groupindex
        if real.flags & (re.IGNORECASE | re.MULTILINE | re.DOTALL | re.VERBOSE) & ~re.UNICODE:
            if real.flags & (re.IGNORECASE | re.MULTILINE | re.DOTALL):
                raise Unsupported("regex flags %r" % real.flags)
        self.tree = list(sre_parse.parse(real.pattern, real.flags & ~re.UNICODE if isinstance(real.pattern, bytes) else real.flags))
        self.names = dict(real.groupindex)
        self.is_bytes = isinstance(real.pattern, bytes)

    def _chk(self, s):
        if isinstance(s, SymSeq):
            if self.is_bytes != isinstance(s, SymBytes):
                raise TypeError("cannot use a %s pattern on this object" % ("bytes" if self.is_bytes else "string"))
            return True
        return False

    def match(self, s, pos=0):
        if not self._chk(s):
            return self.real.match(s, pos)
        return self._run(s, pos, full=False)

    def fullmatch(self, s, pos=0):
        if not self._chk(s):
            return self.real.fullmatch(s, pos)
        return self._run(s, pos, full=True)

    def search(self, s, pos=0):
        if not self._chk(s):
            return self.real.search(s, pos)
        for st in range(pos, len(s) + 1):
            m = self._run(s, st, full=False)
            if m is not None:
                return m
        return None

    def sub(self, repl, s, count=0):
        if not self._chk(s):
            if isinstance(repl, SymSeq):
                raise Unsupported("re.sub with symbolic replacement")
            return self.real.sub(repl, s, count)
        if callable(repl):
            raise Unsupported("re.sub with callable")
        tmpl = sre_parse.parse_template(repl, self.real)
        # normalise template across python versions into list of (literal | group index)
        parts = _template_parts(tmpl, repl)
        out = []
        i = 0
        n = len(s)
        done = 0
        while i < n:
            if count and done >= count:
                break
            m = self._run(s, i, full=False)
            if m is None:
                out.append(s.c[i])
                i += 1
                continue
            if m.end() == m.start():
                raise Unsupported("re.sub with a pattern that matches the empty string")
            for p in parts:
                if isinstance(p, int):
                    g = m._one(p)
                    if g is not None:
                        out.extend(lift(g).c)
                else:
                    out.extend(lift(p).c)
            done += 1
            i = m.end()
        out.extend(s.c[i:])
        if self._run(s._mk([]) if False else type(s)([]), 0, full=False) is not None:
            raise Unsupported("re.sub with a pattern that matches the empty string")
        return s._mk(out)

    # ------------------------------------------------------------------ matcher
    def _run(self, s, pos, full):
        cells = s.c
        n = len(cells)

        def final(i, g):
            if full and i != n:
                return None
            return (i, g)

        r = self._m(self.tree, 0, pos, cells, {}, final, pos)
        if r is None:
            return None
        i, g = r
        return SymMatch(s, g, self.names, pos, i, self.groups)

    @staticmethod
    def _decide(e):
        if isinstance(e, bool):
            return e
        return E().branch(e)

    def _category(self, cell, cat):
        sym = not isinstance(cell, int)
        R = SymSeq._crange
        I = SymSeq._cin
        if cat in (sre_c.CATEGORY_DIGIT, sre_c.CATEGORY_NOT_DIGIT):
            r = R(cell, 48, 57)
            neg = cat is sre_c.CATEGORY_NOT_DIGIT
        elif cat in (sre_c.CATEGORY_SPACE, sre_c.CATEGORY_NOT_SPACE):
            r = I(cell, (9, 10, 11, 12, 13, 32))
            neg = cat is sre_c.CATEGORY_NOT_SPACE
        elif cat in (sre_c.CATEGORY_WORD, sre_c.CATEGORY_NOT_WORD):
            parts = [R(cell, 48, 57), R(cell, 65, 90), R(cell, 97, 122), I(cell, (95,))]
            r = z3.Or(parts) if sym else any(parts)
            neg = cat is sre_c.CATEGORY_NOT_WORD
        else:
            raise Unsupported("regex category %s" % cat)
        if not self.is_bytes:
            # unicode categories beyond ASCII are not modelled
            if sym:
                if self._decide(z3.UGT(cell, 127)):
                    raise Unsupported("unicode regex category on non-ascii symbolic char")
            elif cell > 127:
                raise Unsupported("unicode regex category on non-ascii char")
        if sym:
            return z3.Not(r) if neg else r
        return (not r) if neg else r

    def _cls(self, cell, items):
        neg = False
        conds = []
        sym = not isinstance(cell, int)
        for op, av in items:
            if op is sre_c.NEGATE:
                neg = True
            elif op is sre_c.LITERAL:
                conds.append((cell == av))
            elif op is sre_c.RANGE:
                conds.append(SymSeq._crange(cell, av[0], av[1]))
            elif op is sre_c.CATEGORY:
                conds.append(self._category(cell, av))
            else:
                raise Unsupported("regex class op %s" % op)
        if sym:
            e = z3.Or(conds) if conds else z3.BoolVal(False)
            return z3.Not(e) if neg else e
        r = any(conds)
        return (not r) if neg else r

    def _test(self, cell, op, av):
        if op is sre_c.LITERAL:
            r = cell == av
        elif op is sre_c.NOT_LITERAL:
            r = cell != av
        elif op is sre_c.IN:
            r = self._cls(cell, av)
        elif op is sre_c.ANY:
            r = cell != 10
        else:
            raise Unsupported("regex test op %s" % op)
        return self._decide(r)

    def _m(self, ops, oi, i, cells, g, k, pos0):
        """match ops[oi:] at position i, continuation k(i, groups) -> result or None"""
        if oi >= len(ops):
            return k(i, g)
        op, av = ops[oi]
        n = len(cells)
        if op in (sre_c.LITERAL, sre_c.NOT_LITERAL, sre_c.IN, sre_c.ANY):
            if i < n and self._test(cells[i], op, av):
                return self._m(ops, oi + 1, i + 1, cells, g, k, pos0)
            return None
        if op is sre_c.AT:
            if av is sre_c.AT_BEGINNING or av is sre_c.AT_BEGINNING_STRING:
                ok = i == 0
            elif av is sre_c.AT_END_STRING:
                ok = i == n
            elif av is sre_c.AT_END:
                if i == n:
                    ok = True
                elif i == n - 1:
                    ok = self._decide(cells[i] == 10)
                else:
                    ok = False
            else:
                raise Unsupported("regex anchor %s" % av)
            return self._m(ops, oi + 1, i, cells, g, k, pos0) if ok else None
        if op is sre_c.SUBPATTERN:
            gid, add_flags, del_flags, sub = av
            if add_flags or del_flags:
                raise Unsupported("inline regex flags")
            sub = list(sub)

            def k2(j, g2):
                if gid is not None:
                    g2 = dict(g2)
                    g2[gid] = (i, j)
                return self._m(ops, oi + 1, j, cells, g2, k, pos0)

            return self._m(sub, 0, i, cells, g, k2, pos0)
        if op is sre_c.BRANCH:
            for alt in av[1]:
                alt = list(alt)

                def k3(j, g2):
                    return self._m(ops, oi + 1, j, cells, g2, k, pos0)

                r = self._m(alt, 0, i, cells, g, k3, pos0)
                if r is not None:
                    return r
            return None
        if op in (sre_c.MAX_REPEAT, sre_c.MIN_REPEAT):
            lo, hi, sub = av
            sub = list(sub)
            greedy = op is sre_c.MAX_REPEAT
            if len(sub) == 1 and sub[0][0] in (sre_c.LITERAL, sre_c.NOT_LITERAL, sre_c.IN, sre_c.ANY):
                # repeat of a single-character test: iterative (no recursion per repetition)
                sop, sav = sub[0]
                if greedy:
                    cnt = 0
                    while cnt < hi and i + cnt < n and self._test(cells[i + cnt], sop, sav):
                        cnt += 1
                    for kk in range(cnt, lo - 1, -1):
                        r = self._m(ops, oi + 1, i + kk, cells, g, k, pos0)
                        if r is not None:
                            return r
                    return None
                cnt = 0
                while cnt < lo:
                    if i + cnt < n and self._test(cells[i + cnt], sop, sav):
                        cnt += 1
                    else:
                        return None
                while True:
                    r = self._m(ops, oi + 1, i + cnt, cells, g, k, pos0)
                    if r is not None:
                        return r
                    if cnt < hi and i + cnt < n and self._test(cells[i + cnt], sop, sav):
                        cnt += 1
                    else:
                        return None

            def rep(count, j, g2):
                def more():
                    if count < hi:
                        def k2(j2, g3):
                            if j2 == j and count >= lo:
                                return None  # empty iteration guard
                            return rep(count + 1, j2, g3)
                        return self._m(sub, 0, j, cells, g2, k2, pos0)
                    return None

                def stop():
                    if count >= lo:
                        return self._m(ops, oi + 1, j, cells, g2, k, pos0)
                    return None

                for f in ((more, stop) if greedy else (stop, more)):
                    r = f()
                    if r is not None:
                        return r
                return None

            return rep(0, i, g)
        raise Unsupported("regex op %s" % op)


def _template_parts(tmpl, repl):
    """normalise re._parser.parse_template output -> list of literal (str/bytes) or int group"""
    # python 3.12: list of alternating literals / group indices: [lit0, g1, lit1, g2, ...] with None for empty
    if isinstance(tmpl, list):
        out = []
        for p in tmpl:
            if p is None:
                continue
            out.append(p)
        return out
    # python <= 3.11: (groups, literals)
    groups, literals = tmpl
    lits = list(literals)
    for idx, gi in groups:
        lits[idx] = gi
    return [p for p in lits if p is not None]


def wrap_module_patterns(mod):
    """replace every compiled pattern in a module namespace by its symbolic wrapper"""
    n = 0
    for name, val in list(vars(mod).items()):
        if isinstance(val, re.Pattern):
            setattr(mod, name, SymPattern(val))
            n += 1
    return n
