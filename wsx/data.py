"""Symbolic byte strings and text strings of *concrete length*.

Cells are python ints or z3 bit-vectors (8 bit for bytes, 21 bit for str).  All content
questions become quantifier-free bit-vector formulas; operations that need a decision
(find, strip, split ...) fork through SymBool.
"""
import string as _string

import z3

from .core import E, SymBool, SymInt, Unsupported, mkbool, mkint, s_and, s_or, tobool, active

BYTES_WS = (9, 10, 11, 12, 13, 32)
STR_WS = (9, 10, 11, 12, 13, 28, 29, 30, 31, 32, 0x85, 0xA0, 0x1680) + tuple(range(0x2000, 0x200B)) + (
    0x2028, 0x2029, 0x202F, 0x205F, 0x3000)
STR_LINEBREAKS = (10, 11, 12, 13, 28, 29, 30, 0x85, 0x2028, 0x2029)


def _simp_cell(x):
    if isinstance(x, int):
        return x
    x = z3.simplify(x)
    if z3.is_bv_value(x):
        return x.as_long()
    return x


class SymSeq:
    W = 8
    __wsx_sym__ = True

    def __init__(self, cells):
        self.c = list(cells)

    # ------------------------------------------------------------ construction helpers
    @classmethod
    def fresh(cls, n, name="x"):
        eng = E()
        return cls([eng.fresh_bv(name, cls.W) for _ in range(n)])

    @classmethod
    def _const(cls, v):
        return z3.BitVecVal(v, cls.W)

    def _z(self, cell):
        return z3.BitVecVal(cell, self.W) if isinstance(cell, int) else cell

    def concrete(self):
        return all(isinstance(x, int) for x in self.c)

    def _mk(self, cells):
        return type(self)(cells).simplify()

    # cell predicates -> bool or z3 Bool
    def _ceq(self, a, b):
        if isinstance(a, int) and isinstance(b, int):
            return a == b
        return self._z(a) == self._z(b)

    @staticmethod
    def _cin(cell, vals):
        if isinstance(cell, int):
            return cell in vals
        return z3.Or([cell == v for v in vals])

    @staticmethod
    def _crange(cell, lo, hi):
        if isinstance(cell, int):
            return lo <= cell <= hi
        return z3.And(z3.UGE(cell, lo), z3.ULE(cell, hi))

    @staticmethod
    def _decide(e):
        if isinstance(e, bool):
            return e
        return E().branch(e)

    def _match_expr(self, i, pat):
        """bool / z3 Bool: cells i.. equal pat cells"""
        if i < 0 or i + len(pat) > len(self.c):
            return False
        out = []
        for j, p in enumerate(pat):
            r = self._ceq(self.c[i + j], p)
            if r is False:
                return False
            if r is not True:
                out.append(r)
        if not out:
            return True
        return z3.And(out) if len(out) > 1 else out[0]

    def _lift_cells(self, x):
        """cells of x, which must be of the same kind"""
        if isinstance(x, SymSeq):
            if x.W != self.W:
                raise TypeError("cannot mix bytes and str")
            return x.c
        return self._cells_of_concrete(x)

    # ------------------------------------------------------------ basic protocol
    def __len__(self):
        return len(self.c)

    def __bool__(self):
        return len(self.c) > 0

    def __hash__(self):
        if active():
            E().flag_unsupported("hash() of symbolic %s" % type(self).__name__)
        raise Unsupported("hash() of symbolic %s" % type(self).__name__)

    def __iter__(self):
        for i in range(len(self.c)):
            yield self[i]

    def _same_kind(self, o):
        return isinstance(o, type(self)) or isinstance(o, self._ctype)

    def __add__(self, o):
        if not self._same_kind(o):
            return NotImplemented
        return self._mk(self.c + self._lift_cells(o))

    def __radd__(self, o):
        if not self._same_kind(o):
            return NotImplemented
        return self._mk(self._lift_cells(o) + self.c)

    def __mul__(self, n):
        return self._mk(self.c * int(n))

    __rmul__ = __mul__

    def _fix_index(self, v):
        if isinstance(v, SymInt):
            return v.clamp_index(len(self.c))
        return v

    def __eq__(self, o):
        if not self._same_kind(o):
            return False
        oc = self._lift_cells(o)
        if len(oc) != len(self.c):
            return False
        return mkbool(tobool(self._match_expr(0, oc))) if len(oc) else True

    def __ne__(self, o):
        r = self.__eq__(o)
        return (not r) if isinstance(r, bool) else ~r

    __wsx_eq__ = __eq__

    def _lex(self, o, strict_result_on_equal):
        oc = self._lift_cells(o)
        a, b = self.c, oc
        n = min(len(a), len(b))
        # build from the end
        if len(a) < len(b):
            tail = True
        elif len(a) > len(b):
            tail = False
        else:
            tail = strict_result_on_equal
        e = z3.BoolVal(tail)
        for i in range(n - 1, -1, -1):
            x, y = self._z(a[i]), self._z(b[i])
            e = z3.Or(z3.ULT(x, y), z3.And(x == y, e))
        return mkbool(e)

    def __lt__(self, o):
        if not self._same_kind(o):
            return NotImplemented
        return self._lex(o, False)

    def __le__(self, o):
        if not self._same_kind(o):
            return NotImplemented
        return self._lex(o, True)

    def __gt__(self, o):
        if not self._same_kind(o):
            return NotImplemented
        r = self._lex(o, True)
        return (not r) if isinstance(r, bool) else ~r

    def __ge__(self, o):
        if not self._same_kind(o):
            return NotImplemented
        r = self._lex(o, False)
        return (not r) if isinstance(r, bool) else ~r

    # ------------------------------------------------------------ searching
    def find(self, pat, start=0, end=None):
        pat = self._pat_cells(pat)
        n, m = len(self.c), len(pat)
        start = self._fix_index(start)
        if start < 0:
            start = max(0, n + start)
        stop = n if end is None else min(n, self._fix_index(end) if self._fix_index(end) >= 0 else n + self._fix_index(end))
        if m == 0:
            return start if start <= n else -1
        p0 = pat[0]
        c = self.c
        p0int = isinstance(p0, int)
        for i in range(start, stop - m + 1):
            x = c[i]
            if p0int and x.__class__ is int and x != p0:
                continue
            if self._decide(self._match_expr(i, pat)):
                return i
        return -1

    def rfind(self, pat, start=0, end=None):
        pat = self._pat_cells(pat)
        n, m = len(self.c), len(pat)
        stop = n if end is None else min(n, end)
        for i in range(stop - m, start - 1, -1):
            if self._decide(self._match_expr(i, pat)):
                return i
        return -1

    def index(self, pat, *a):
        r = self.find(pat, *a)
        if r < 0:
            raise ValueError("subsection not found")
        return r

    def count(self, pat):
        pat = self._pat_cells(pat)
        m = len(pat)
        if m == 0:
            return len(self.c) + 1
        i = 0
        k = 0
        while i <= len(self.c) - m:
            if self._decide(self._match_expr(i, pat)):
                k += 1
                i += m
            else:
                i += 1
        return k

    def __contains__(self, pat):
        return self.find(pat) >= 0

    def startswith(self, pat, start=0):
        if isinstance(pat, tuple):
            for p in pat:
                if self.startswith(p, start):
                    return True
            return False
        pat = self._pat_cells(pat)
        return self._decide(self._match_expr(start, pat)) if len(pat) else True

    def endswith(self, pat):
        if isinstance(pat, tuple):
            for p in pat:
                if self.endswith(p):
                    return True
            return False
        pat = self._pat_cells(pat)
        if not pat:
            return True
        return self._decide(self._match_expr(len(self.c) - len(pat), pat))

    # ------------------------------------------------------------ slicing
    def __getitem__(self, k):
        if isinstance(k, slice):
            if k.step is not None and k.step != 1:
                if k.step == -1 and k.start is None and k.stop is None:
                    return self._mk(self.c[::-1])
                raise Unsupported("slice step")
            return self._mk(self.c[self._fix_index(k.start):self._fix_index(k.stop)])
        if isinstance(k, SymInt):
            k = k.__index__()
        return self._item(self.c[k])

    # ------------------------------------------------------------ stripping / splitting
    def _strip(self, chars, left, right):
        vals = self._WS if chars is None else tuple(self._pat_cells(chars))
        if any(not isinstance(v, int) for v in vals):
            raise Unsupported("strip with symbolic charset")
        c = list(self.c)
        a, b = 0, len(c)
        if left:
            while a < b and self._decide(self._cin(c[a], vals)):
                a += 1
        if right:
            while b > a and self._decide(self._cin(c[b - 1], vals)):
                b -= 1
        return self._mk(c[a:b])

    def strip(self, chars=None):
        return self._strip(chars, True, True)

    def lstrip(self, chars=None):
        return self._strip(chars, True, False)

    def rstrip(self, chars=None):
        return self._strip(chars, False, True)

    def split(self, sep=None, maxsplit=-1):
        if sep is None:
            return self._split_ws(maxsplit)
        sep = self._pat_cells(sep)
        m = len(sep)
        if m == 0:
            raise ValueError("empty separator")
        out = []
        start = i = 0
        n = len(self.c)
        s0 = sep[0]
        s0int = isinstance(s0, int)
        cc = self.c
        while i <= n - m and maxsplit != 0:
            x = cc[i]
            if s0int and x.__class__ is int and x != s0:
                i += 1
                continue
            if self._decide(self._match_expr(i, sep)):
                out.append(self._mk(self.c[start:i]))
                i += m
                start = i
                maxsplit -= 1
            else:
                i += 1
        out.append(self._mk(self.c[start:]))
        return out

    def rsplit(self, sep=None, maxsplit=-1):
        if sep is None:
            if maxsplit < 0:
                return self._split_ws(-1)
            raise Unsupported("rsplit(None, n)")
        sep = self._pat_cells(sep)
        m = len(sep)
        out = []
        n = len(self.c)
        end = n
        i = n - m
        while i >= 0 and maxsplit != 0:
            if self._decide(self._match_expr(i, sep)):
                out.append(self._mk(self.c[i + m:end]))
                end = i
                i -= m
                maxsplit -= 1
            else:
                i -= 1
        out.append(self._mk(self.c[:end]))
        out.reverse()
        return out

    def _split_ws(self, maxsplit):
        out = []
        cur = None
        n = len(self.c)
        i = 0
        while i < n:
            if maxsplit == 0 and cur is None:
                # rest, with leading ws removed
                j = i
                while j < n and self._decide(self._cin(self.c[j], self._WS)):
                    j += 1
                if j < n:
                    out.append(self._mk(self.c[j:]))
                return out
            if self._decide(self._cin(self.c[i], self._WS)):
                if cur is not None:
                    out.append(self._mk(cur))
                    cur = None
                    maxsplit -= 1
            else:
                if cur is None:
                    cur = []
                cur.append(self.c[i])
            i += 1
        if cur is not None:
            out.append(self._mk(cur))
        return out

    def partition(self, sep):
        i = self.find(sep)
        if i < 0:
            return (self.simplify(), self._empty(), self._empty())
        m = len(self._pat_cells(sep))
        return (self._mk(self.c[:i]), self._mk(self.c[i:i + m]), self._mk(self.c[i + m:]))

    def rpartition(self, sep):
        i = self.rfind(sep)
        if i < 0:
            return (self._empty(), self._empty(), self.simplify())
        m = len(self._pat_cells(sep))
        return (self._mk(self.c[:i]), self._mk(self.c[i:i + m]), self._mk(self.c[i + m:]))

    def replace(self, a, b, count=-1):
        a = self._pat_cells(a)
        b = self._pat_cells(b)
        if len(a) == 1 and len(b) == 1 and count < 0 and isinstance(a[0], int):
            out = []
            for x in self.c:
                if isinstance(x, int):
                    out.append(b[0] if x == a[0] else x)
                else:
                    out.append(_simp_cell(z3.If(x == a[0], self._z(b[0]), x)))
            return self._mk(out)
        if not a:
            raise Unsupported("replace of empty pattern")
        out = []
        i = 0
        n, m = len(self.c), len(a)
        while i < n:
            if count != 0 and i <= n - m and self._decide(self._match_expr(i, a)):
                out.extend(b)
                i += m
                count -= 1
            else:
                out.append(self.c[i])
                i += 1
        return self._mk(out)

    def join(self, items):
        out = []
        first = True
        for it in items:
            if not first:
                out.extend(self.c)
            first = False
            if not self._same_kind(it):
                raise TypeError("sequence item: expected %s instance" % self._ctype.__name__)
            out.extend(self._lift_cells(it))
        return self._mk(out)

    # ------------------------------------------------------------ case mapping (ASCII part)
    def _map(self, f):
        return self._mk([_simp_cell(f(x)) for x in self.c])

    def __repr__(self):
        return "%s(%r)" % (type(self).__name__, self.c)

    def __wsx_conc__(self, m):
        out = []
        for x in self.c:
            out.append(x if isinstance(x, int) else m.eval(x, model_completion=True).as_long())
        return self._from_ints(out)

    def cell_vars(self):
        return [x for x in self.c if not isinstance(x, int)]


class SymBytes(SymSeq):
    W = 8
    _ctype = bytes
    _WS = BYTES_WS

    @staticmethod
    def _cells_of_concrete(x):
        if isinstance(x, (bytes, bytearray, memoryview)):
            return list(bytes(x))
        raise TypeError("a bytes-like object is required, not %r" % type(x).__name__)

    def _pat_cells(self, p):
        if isinstance(p, int):
            return [p]
        if isinstance(p, SymInt):
            return [z3.Int2BV(p.e, 8)]
        return self._lift_cells(p)

    @staticmethod
    def _from_ints(xs):
        return bytes(xs)

    def _empty(self):
        return b""

    def simplify(self):
        if self.concrete():
            return bytes(self.c)
        return self

    def _item(self, cell):
        if isinstance(cell, int):
            return cell
        return SymInt(z3.BV2Int(cell))

    def decode(self, enc="utf-8", errors="strict"):
        e = enc.lower().replace("_", "-")
        if e in ("latin-1", "latin1", "iso-8859-1", "iso8859-1"):
            return SymStr([x if isinstance(x, int) else _simp_cell(z3.ZeroExt(SymStr.W - 8, x)) for x in self.c]).simplify()
        if e == "ascii":
            for x in self.c:
                if not self._decide(self._crange(x, 0, 127)):
                    raise UnicodeDecodeError("ascii", b"?", 0, 1, "ordinal not in range(128)")
            return SymStr([x if isinstance(x, int) else _simp_cell(z3.ZeroExt(SymStr.W - 8, x)) for x in self.c]).simplify()
        if e in ("utf-8", "utf8"):
            # symbolic cells decided to be ASCII stay symbolic; a symbolic non-ASCII cell is concretised (fork per value)
            # so that CPython's own decoder can be applied to every non-ASCII run
            cells = []
            for x in self.c:
                if isinstance(x, int) or self._decide(self._crange(x, 0, 127)):
                    cells.append(x)
                else:
                    cells.append(SymInt(z3.BV2Int(x)).__index__())
            out = []
            run = bytearray()

            def flush():
                if run:
                    out.extend(ord(ch) for ch in bytes(run).decode("utf-8", errors))
                    del run[:]
            for x in cells:
                if isinstance(x, int) and x >= 0x80:
                    run.append(x)
                else:
                    flush()
                    out.append(x if isinstance(x, int) else _simp_cell(z3.ZeroExt(SymStr.W - 8, x)))
            flush()
            return SymStr(out).simplify()
        raise Unsupported("decode %s" % enc)

    def upper(self):
        return self._map(lambda x: (x - 32 if 97 <= x <= 122 else x) if isinstance(x, int)
                         else z3.If(z3.And(z3.UGE(x, 97), z3.ULE(x, 122)), x - 32, x))

    def lower(self):
        return self._map(lambda x: (x + 32 if 65 <= x <= 90 else x) if isinstance(x, int)
                         else z3.If(z3.And(z3.UGE(x, 65), z3.ULE(x, 90)), x + 32, x))

    def hex(self):
        raise Unsupported("bytes.hex symbolic")


# latin-1 range case mapping of str (checked differentially against CPython in selftest)
def _str_lower_cell(x):
    if isinstance(x, int):
        r = chr(x).lower()
        if len(r) != 1:
            raise Unsupported("lower() changes length")
        return ord(r)
    return z3.If(z3.Or(z3.And(z3.UGE(x, 65), z3.ULE(x, 90)), z3.And(z3.UGE(x, 0xC0), z3.ULE(x, 0xDE), x != 0xD7)), x + 32, x)


def _str_upper_cell(x):
    if isinstance(x, int):
        r = chr(x).upper()
        if len(r) != 1:
            raise Unsupported("upper() changes length")
        return ord(r)
    return z3.If(z3.Or(z3.And(z3.UGE(x, 97), z3.ULE(x, 122)), z3.And(z3.UGE(x, 0xE0), z3.ULE(x, 0xFE), x != 0xF7)), x - 32, x)


class SymStr(SymSeq):
    W = 21
    _ctype = str
    _WS = STR_WS

    @staticmethod
    def _cells_of_concrete(x):
        if isinstance(x, str):
            return [ord(ch) for ch in x]
        raise TypeError("must be str, not %r" % type(x).__name__)

    def _pat_cells(self, p):
        return self._lift_cells(p)

    @staticmethod
    def _from_ints(xs):
        return "".join(chr(x) for x in xs)

    def _empty(self):
        return ""

    def simplify(self):
        if self.concrete():
            return "".join(chr(x) for x in self.c)
        return self

    def _item(self, cell):
        if isinstance(cell, int):
            return chr(cell)
        return SymStr([cell])

    def __str__(self):
        if active():
            E().flag_unsupported("str() of SymStr escaped to C")
        return "<symstr>"

    def __format__(self, spec):
        if active():
            E().flag_unsupported("format() of SymStr escaped to C")
        return "<symstr>"

    def _concretize_wide(self):
        """cells that may be > 0xFF are concretised (forking on each model value) so that the
        exact unicode tables of CPython can be used for them"""
        out = []
        for x in self.c:
            if isinstance(x, int):
                out.append(x)
            elif self._decide(z3.ULE(x, 0xFF)):
                out.append(x)
            else:
                out.append(SymInt(z3.BV2Int(x)).__index__())
        return out

    def lower(self):
        cells = self._concretize_wide()
        out = []
        for x in cells:
            if isinstance(x, int):
                out.extend(ord(ch) for ch in chr(x).lower())
            else:
                out.append(_simp_cell(_str_lower_cell(x)))
        return self._mk(out)

    def upper(self):
        cells = self._concretize_wide()
        out = []
        for x in cells:
            if isinstance(x, int):
                out.extend(ord(ch) for ch in chr(x).upper())
            elif self._decide(self._cin(x, (0xB5, 0xDF, 0xFF))):
                v = SymInt(z3.BV2Int(x)).__index__()
                out.extend(ord(ch) for ch in chr(v).upper())
            else:
                out.append(_simp_cell(_str_upper_cell(x)))
        return self._mk(out)

    def capitalize(self):
        if not self.c:
            return ""
        cells = self._concretize_wide()
        out = []
        x = cells[0]
        if isinstance(x, int):
            out.extend(ord(ch) for ch in chr(x).title() if True)
        elif self._decide(self._cin(x, (0xB5, 0xDF, 0xFF))):
            v = SymInt(z3.BV2Int(x)).__index__()
            out.extend(ord(ch) for ch in chr(v).capitalize())
        else:
            out.append(_simp_cell(_str_upper_cell(x)))
        for x in cells[1:]:
            if isinstance(x, int):
                out.extend(ord(ch) for ch in chr(x).lower())
            else:
                out.append(_simp_cell(_str_lower_cell(x)))
        return self._mk(out)

    def encode(self, enc="utf-8", errors="strict"):
        e = enc.lower().replace("_", "-")
        if e in ("latin-1", "latin1", "iso-8859-1", "iso8859-1"):
            out = []
            for i, x in enumerate(self.c):
                if isinstance(x, int):
                    if x > 255:
                        raise UnicodeEncodeError("latin-1", "?", i, i + 1, "ordinal not in range(256)")
                    out.append(x)
                elif self._decide(z3.ULE(x, 255)):
                    out.append(_simp_cell(z3.Extract(7, 0, x)))
                else:
                    raise UnicodeEncodeError("latin-1", "?", i, i + 1, "ordinal not in range(256)")
            return SymBytes(out).simplify()
        if e in ("utf-8", "utf8"):
            out = []
            for i, x in enumerate(self.c):
                if isinstance(x, int):
                    out.extend(chr(x).encode("utf-8"))
                elif self._decide(z3.ULE(x, 0x7F)):
                    out.append(_simp_cell(z3.Extract(7, 0, x)))
                elif self._decide(z3.ULE(x, 0x7FF)):
                    out.append(_simp_cell(z3.Extract(7, 0, z3.LShR(x, 6)) | 0xC0))
                    out.append(_simp_cell((z3.Extract(7, 0, x) & 0x3F) | 0x80))
                else:
                    v = SymInt(z3.BV2Int(x)).__index__()
                    out.extend(chr(v).encode("utf-8"))  # raises for surrogates like CPython
            return SymBytes(out).simplify()
        if e == "ascii":
            out = []
            for i, x in enumerate(self.c):
                if self._decide(self._crange(x, 0, 127)):
                    out.append(x if isinstance(x, int) else _simp_cell(z3.Extract(7, 0, x)))
                else:
                    raise UnicodeEncodeError("ascii", "?", i, i + 1, "ordinal not in range(128)")
            return SymBytes(out).simplify()
        raise Unsupported("encode %s" % enc)

    def splitlines(self, keepends=False):
        if keepends:
            raise Unsupported("splitlines(keepends)")
        out = []
        cur = []
        i, n = 0, len(self.c)
        while i < n:
            x = self.c[i]
            if self._decide(self._cin(x, STR_LINEBREAKS)):
                out.append(self._mk(cur))
                cur = []
                if i + 1 < n and self._decide(self._ceq(x, 13)) and self._decide(self._ceq(self.c[i + 1], 10)):
                    i += 1
            else:
                cur.append(x)
            i += 1
        if cur:
            out.append(self._mk(cur))
        return out

    def format(self, *args, **kw):
        return sym_format(self, args, kw)

    def isascii(self):
        for x in self.c:
            if not self._decide(self._crange(x, 0, 127)):
                return False
        return True

    def isalpha(self):
        if not self.c:
            return False
        for x in self.c:
            if isinstance(x, int):
                if not chr(x).isalpha():
                    return False
            elif self._decide(z3.ULE(x, 127)):
                if not self._decide(z3.Or(self._crange(x, 65, 90), self._crange(x, 97, 122))):
                    return False
            else:
                v = SymInt(z3.BV2Int(x)).__index__()
                if not chr(v).isalpha():
                    return False
        return True

    def isdigit(self):
        if not self.c:
            return False
        for x in self.c:
            if isinstance(x, int):
                if not chr(x).isdigit():
                    return False
            else:
                # latin-1: 0-9, superscripts 2,3,1 (b2,b3,b9) are digits for isdigit()
                if not self._decide(z3.Or(z3.And(z3.UGE(x, 48), z3.ULE(x, 57)), x == 0xB2, x == 0xB3, x == 0xB9)):
                    if not self._decide(z3.ULE(x, 0xFF)):
                        raise Unsupported("isdigit beyond latin-1")
                    return False
        return True


def lift(x):
    if isinstance(x, SymSeq):
        return x
    if isinstance(x, str):
        return SymStr([ord(ch) for ch in x])
    if isinstance(x, (bytes, bytearray)):
        return SymBytes(list(x))
    raise TypeError("cannot lift %r" % type(x).__name__)


def has_sym(x, depth=0):
    if isinstance(x, (SymSeq, SymInt, SymBool)):
        return True
    if depth < 3 and isinstance(x, (tuple, list)):
        return any(has_sym(y, depth + 1) for y in x)
    if depth < 3 and isinstance(x, dict):
        return any(has_sym(y, depth + 1) for y in x.values())
    return False


def sym_format(fmt, args, kw):
    """str.format for templates whose arguments may be SymStr (only plain {} / {n} / {name} fields
    may receive symbolic values)"""
    fmt_c = fmt if isinstance(fmt, str) else None
    if fmt_c is None:
        if not lift(fmt).concrete():
            raise Unsupported("symbolic format template")
        fmt_c = lift(fmt).simplify()
    out = []
    auto = 0
    for lit, field, spec, conv in _string.Formatter().parse(fmt_c):
        if lit:
            out.append(lit)
        if field is None:
            continue
        if field == "":
            v = args[auto]
            auto += 1
        elif field.isdigit():
            v = args[int(field)]
        else:
            name = field.split(".")[0].split("[")[0]
            if name != field:
                raise Unsupported("format field %r" % field)
            v = kw[name]
        out.append(format_value(v, conv, spec or ""))
    return SymStr("")._mk(sum((lift(p).c if isinstance(p, SymSeq) else [ord(ch) for ch in p] for p in out), []))


def format_value(v, conv, spec):
    """one replacement field -> str or SymStr"""
    if isinstance(v, SymStr):
        if conv in (None, "s", -1, 115) and spec == "":
            return v
        if conv in ("r", 114):
            if active():
                E().path_notes.append("opaque repr() of a symbolic string in a message")
            return "'<sym>'"
        raise Unsupported("format of SymStr with conv=%r spec=%r" % (conv, spec))
    if isinstance(v, SymBytes):
        if active():
            E().path_notes.append("opaque repr() of symbolic bytes in a message")
        return "b'<sym>'"
    if isinstance(v, SymInt):
        return render_int(v, spec, conv)
    if has_sym(v):
        if active():
            E().path_notes.append("opaque repr() of a container with symbolic members in a message")
        return "<sym-container>"
    if conv in ("s", 115):
        v = str(v)
    elif conv in ("r", 114):
        v = repr(v)
    elif conv in ("a", 97):
        v = ascii(v)
    return format(v, spec)


def render_int(v, spec="", conv=None):
    """decimal rendering of a SymInt: concretises (forks on the model value) unless the harness declared
    number formatting in messages to be out of scope (Engine.opaque_ints): then a fixed placeholder"""
    if active() and getattr(E(), "opaque_ints", False):
        E().path_notes.append("opaque rendering of a symbolic integer in a message")
        return "#"
    return format(v.__index__(), spec)


def digits_value(digs, base):
    """value of a digit sequence; digs: python ints or 8-bit BV terms holding digit values (< base).
    Short all-symbolic numbers are accumulated in one bit-vector (a single BV2Int), long ones as a
    linear integer sum over the few symbolic digits."""
    import math
    if all(isinstance(d, int) for d in digs):
        v = 0
        for d in digs:
            v = v * base + d
        return v
    n = len(digs)
    if n <= 16:
        bits = int(math.ceil(n * math.log2(base))) + 2
        bits = max(bits, 9)
        acc = z3.BitVecVal(0, bits)
        for d in digs:
            if isinstance(d, int):
                dz = z3.BitVecVal(d, bits)
            elif d.size() < bits:
                dz = z3.ZeroExt(bits - d.size(), d)
            elif d.size() > bits:
                dz = z3.Extract(bits - 1, 0, d)  # digit values are < base <= 36
            else:
                dz = d
            acc = acc * base + dz
        return mkint(z3.BV2Int(z3.simplify(acc)))
    const = 0
    terms = []
    import sys
    lim = sys.get_int_max_str_digits()
    sys.set_int_max_str_digits(0)  # z3.IntVal renders python ints through str(); restored below
    try:
        return _digits_linear(digs, base, n)
    finally:
        sys.set_int_max_str_digits(lim)


def _digits_linear(digs, base, n):
    const = 0
    terms = []
    for i, d in enumerate(digs):
        wgt = base ** (n - 1 - i)
        if isinstance(d, int):
            const += d * wgt
        else:
            terms.append(z3.BV2Int(z3.Extract(7, 0, d) if d.size() > 8 else d) * wgt)
    return mkint(z3.Sum([z3.IntVal(const)] + terms))
