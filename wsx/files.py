"""SymFile: model of io.BytesIO / tempfile.TemporaryFile("w+b") whose content may hold symbolic cells."""
from .core import SymInt, Unsupported
from .data import SymBytes, SymSeq, lift

OPEN_FILES = []


class SymFile:
    __wsx_sym__ = True

    def __init__(self, initial=b"", kind="bytesio"):
        self.cells = list(lift(initial).c) if len(initial) else []
        self.pos = 0
        self.closed = False
        self.kind = kind
        self.close_calls = 0
        OPEN_FILES.append(self)

    def _chk(self):
        if self.closed:
            raise ValueError("I/O operation on closed file.")

    def _n(self, n):
        if isinstance(n, SymInt):
            return n.clamp_index(1 << 62) if False else n.__index__()
        return n

    def write(self, data):
        self._chk()
        if not isinstance(data, (bytes, bytearray, memoryview, SymBytes)):
            raise TypeError("a bytes-like object is required, not %r" % type(data).__name__)
        c = lift(bytes(data) if not isinstance(data, SymBytes) else data).c
        if self.pos > len(self.cells):
            self.cells.extend([0] * (self.pos - len(self.cells)))
        self.cells[self.pos:self.pos + len(c)] = c
        self.pos += len(c)
        return len(c)

    def read(self, n=-1):
        self._chk()
        n = self._n(n)
        if n is None or n < 0:
            out = self.cells[self.pos:]
        else:
            out = self.cells[self.pos:self.pos + n]
        self.pos += len(out)
        return SymBytes(out).simplify()

    def readline(self, n=-1):
        self._chk()
        rest = SymBytes(self.cells[self.pos:])
        i = rest.find(b"\n")
        k = len(rest) if i < 0 else i + 1
        if n is not None and n >= 0:
            k = min(k, n)
        return self.read(k)

    def readlines(self, hint=-1):
        out = []
        while True:
            ln = self.readline()
            if not len(ln):
                return out
            out.append(ln)

    def __iter__(self):
        return iter(self.readlines())

    def seek(self, off, whence=0):
        self._chk()
        off = self._n(off)
        if whence == 0:
            if off < 0:
                raise ValueError("negative seek value %d" % off)
            self.pos = off
        elif whence == 1:
            self.pos = max(0, self.pos + off)
        elif whence == 2:
            self.pos = max(0, len(self.cells) + off)
        else:
            raise ValueError("invalid whence")
        return self.pos

    def tell(self):
        self._chk()
        return self.pos

    def seekable(self):
        return True

    def readable(self):
        return True

    def writable(self):
        return True

    def flush(self):
        pass

    def getvalue(self):
        return SymBytes(self.cells).simplify()

    def close(self):
        self.close_calls += 1
        self.closed = True

    def __enter__(self):
        return self

    def __exit__(self, *a):
        self.close()


def BytesIO(initial=b""):
    return SymFile(initial, "bytesio")


def TemporaryFile(mode="w+b", *a, **k):
    if mode != "w+b":
        raise Unsupported("TemporaryFile mode %r" % mode)
    return SymFile(b"", "tempfile")
