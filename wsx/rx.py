"""Translation of a compiled python pattern (its sre parse tree) into a z3 regular expression,
with python's semantics of ^, $ (end or before a final newline), \\Z and of the applying method
(match / fullmatch / search).  Used for the unbounded-length language checks of C10."""
try:
    import re._parser as sp
    import re._constants as sc
except ImportError:  # pragma: no cover
    import sre_parse as sp
    import sre_constants as sc
import z3

from .core import Unsupported


def ch(i):
    return z3.Unit(z3.BitVecVal(i, 8)) if False else z3.StringVal(_esc(i))


def _esc(i):
    # z3 string literal for a single code point
    if 32 <= i < 127 and chr(i) not in '\\"':
        return chr(i)
    return "\\u{%x}" % i


def lit(i):
    return z3.Re(z3.StringVal(_esc(i)))


def rng(a, b):
    return z3.Range(z3.StringVal(_esc(a)), z3.StringVal(_esc(b)))


ALL = rng(0, 255)
EPS = z3.Re(z3.StringVal(""))


def union(parts):
    parts = list(parts)
    if not parts:
        return z3.Empty(z3.ReSort(z3.StringSort()))
    return parts[0] if len(parts) == 1 else z3.Union(*parts)


def concat(parts):
    parts = [p for p in parts if p is not None]
    if not parts:
        return EPS
    return parts[0] if len(parts) == 1 else z3.Concat(*parts)


def not_in(r):
    return z3.Intersect(ALL, z3.Complement(r))


def _cls(items):
    neg = False
    parts = []
    for op, av in items:
        if op is sc.NEGATE:
            neg = True
        elif op is sc.LITERAL:
            parts.append(lit(av))
        elif op is sc.RANGE:
            parts.append(rng(av[0], av[1]))
        elif op is sc.CATEGORY:
            if av is sc.CATEGORY_DIGIT:
                parts.append(rng(48, 57))
            elif av is sc.CATEGORY_SPACE:
                parts.append(union([lit(c) for c in (9, 10, 11, 12, 13, 32)]))
            else:
                raise Unsupported("category %s" % av)
        else:
            raise Unsupported("class op %s" % op)
    r = union(parts)
    return not_in(r) if neg else r


def _one(o, is_last):
    op, av = o
    if op is sc.LITERAL:
        return lit(av)
    if op is sc.NOT_LITERAL:
        return not_in(lit(av))
    if op is sc.IN:
        return _cls(av)
    if op is sc.ANY:
        return not_in(lit(10))
    if op is sc.SUBPATTERN:
        return _seq(list(av[3]), False)
    if op is sc.BRANCH:
        return union([_seq(list(a), False) for a in av[1]])
    if op in (sc.MAX_REPEAT, sc.MIN_REPEAT):
        lo, hi, sub = av
        r = _seq(list(sub), False)
        if hi is sc.MAXREPEAT:
            if lo == 0:
                return z3.Star(r)
            if lo == 1:
                return z3.Plus(r)
            return concat([r] * lo + [z3.Star(r)])
        return z3.Loop(r, lo, hi)
    raise Unsupported("regex op %s" % (op,))


def _seq(ops, top):
    out = []
    for i, o in enumerate(ops):
        if o[0] is sc.AT:
            raise Unsupported("anchor in the middle of a pattern")
        out.append(_one(o, False))
    return concat(out)


def language(pat, method):
    """z3 regex of the set of subjects s such that pat.<method>(s) succeeds"""
    tree = list(sp.parse(pat.pattern, pat.flags & ~32 if isinstance(pat.pattern, bytes) else pat.flags))
    start_anch = False
    end_anch = None
    if tree and tree[0] == (sc.AT, sc.AT_BEGINNING) or (tree and tree[0] == (sc.AT, sc.AT_BEGINNING_STRING)):
        tree = tree[1:]
        start_anch = True
    if tree and tree[-1][0] is sc.AT:
        end_anch = tree[-1][1]
        tree = tree[:-1]
    body = _seq(tree, True)
    if method == "fullmatch":
        return body  # `$` cannot help: a trailing newline would have to be consumed
    if end_anch is sc.AT_END:
        tail = union([EPS, lit(10)])
    elif end_anch is sc.AT_END_STRING:
        tail = EPS
    elif end_anch is None:
        tail = z3.Star(ALL)
    else:
        raise Unsupported("anchor %s" % end_anch)
    r = concat([body, tail])
    if method == "match":
        return r
    if method == "search":
        if start_anch:
            return r
        return concat([z3.Star(ALL), r])
    raise Unsupported("method %s" % method)


def decide_inclusion(a, b, pre=None, timeout_ms=60000, maxlen=None):
    """is L(a) & L(pre) a subset of L(b)?  -> ('unsat', None) | ('sat', witness bytes) | ('unknown', None)"""
    s = z3.String("s")
    sol = z3.Solver()
    sol.set("timeout", timeout_ms)
    sol.add(z3.InRe(s, a), z3.Not(z3.InRe(s, b)))
    if pre is not None:
        sol.add(z3.InRe(s, pre))
    if maxlen is not None:
        sol.add(z3.Length(s) <= maxlen)
    r = sol.check()
    if r == z3.sat:
        w = sol.model()[s]
        return "sat", _z3str_to_bytes(w)
    return str(r), None


def _z3str_to_bytes(w):
    txt = w.as_string()
    # as_string escapes non printable as \u{..}
    out = bytearray()
    i = 0
    while i < len(txt):
        if txt.startswith("\\u{", i):
            j = txt.index("}", i)
            out.append(int(txt[i + 3:j], 16))
            i = j + 1
        else:
            out.append(ord(txt[i]))
            i += 1
    return bytes(out)
