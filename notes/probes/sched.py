"""Prototype cooperative scheduler: real OS threads, one runs at a time; choice points resolved by Engine.branch on symbolic ints."""
import threading as _th, itertools
import z3
from sym import Engine, PathAbort, SymBool, E

class Kill(BaseException): pass

class Sched:
    def __init__(self, eng):
        self.eng = eng; self.threads = []; self.cur = None; self.nchoice = 0
        self.main_sem = _th.Semaphore(0); self.dead = False; self.error = None
        self.preempt = 0; self.bound = BOUND
    def spawn(self, fn, name):
        t = SimThread(self, fn, name); self.threads.append(t); t.os.start(); return t
    def runnable(self):
        return [t for t in self.threads if t.state == "ready" and (t.waitfor is None or t.waitfor())]
    def choose(self, cands, cur_ok):
        # symbolic scheduling decision
        if len(cands) == 1: return cands[0]
        self.nchoice += 1
        v = z3.Int(f"sch_{self.nchoice}")
        for i, c in enumerate(cands[:-1]):
            if self.eng.branch(v == i): return c
        return cands[-1]
    def switch(self, me):
        """called by running thread me (or None from driver) to reschedule."""
        cands = self.runnable()
        if not cands:
            nxt = None
        else:
            # keep current first => preemption counted when switching away from runnable me
            if me in cands:
                cands.remove(me); cands.insert(0, me)
                if self.preempt >= self.bound: cands = [me]
            nxt = self.choose(cands, True)
            if me in cands and nxt is not me: self.preempt += 1
        if nxt is me: return
        self.cur = nxt
        if nxt is None: self.main_sem.release()
        else: nxt.sem.release()
        if me is not None:
            me.sem.acquire()
            if self.dead: raise Kill()
    def run(self):
        self.switch(None)
        self.main_sem.acquire()   # returns when quiescent or all done
    def killall(self):
        self.dead = True
        for t in self.threads:
            if t.state != "done": t.sem.release()
        for t in self.threads: t.os.join()

class SimThread:
    def __init__(self, s, fn, name):
        self.s, self.fn, self.name = s, fn, name
        self.state = "ready"; self.waitfor = None; self.sem = _th.Semaphore(0)
        self.os = _th.Thread(target=self._run, daemon=True)
    def _run(self):
        self.sem.acquire()
        if self.s.dead: self.state = "done"; return
        try:
            self.fn()
        except Kill: self.state = "done"; return
        except PathAbort as e: self.s.error = e
        except BaseException as e: self.s.error = e
        self.state = "done"
        if not self.s.dead:
            try: self.s.switch_done(self)
            except Kill: pass

def _switch_done(self, me):
    cands = self.runnable()
    nxt = self.choose(cands, False) if cands else None
    self.cur = nxt
    (self.main_sem if nxt is None else nxt.sem).release()
Sched.switch_done = _switch_done

CUR = None
BOUND = 2
def me(): return CUR.cur
def yield_point():
    s = CUR
    if s.error: 
        # propagate abort: stop everything
        s.cur = None; s.main_sem.release(); me_ = me(); raise Kill()
    s.switch(s.cur)

class Lock:
    def __init__(self): self.owner = None
    def acquire(self, blocking=True):
        t = me()
        yield_point()
        if self.owner is None: self.owner = t; return True
        if not blocking: return False
        t.waitfor = lambda: self.owner is None
        CUR.switch(t)
        t.waitfor = None
        assert self.owner is None
        self.owner = t; return True
    def release(self):
        self.owner = None
        yield_point()
    def __enter__(self): self.acquire()
    def __exit__(self, *a): self.release()

class Condition:
    def __init__(self, lock=None):
        self.lock = lock or Lock(); self.waiters = []
        self.acquire = self.lock.acquire; self.release = self.lock.release
    def __enter__(self): self.lock.acquire()
    def __exit__(self, *a): self.lock.release()
    def wait(self, timeout=None):
        t = me(); tok = [False]; self.waiters.append(tok)
        self.lock.owner = None
        t.waitfor = lambda: tok[0] and self.lock.owner is None
        CUR.switch(t)
        t.waitfor = None
        self.lock.owner = t
    def notify(self, n=1):
        for tok in self.waiters[:n]: tok[0] = True
        del self.waiters[:n]
    def notify_all(self): self.notify(len(self.waiters))

class Thread:
    def __init__(self, target, name=None, args=()):
        self.target, self.args, self.name = target, args, name
    def start(self):
        CUR.spawn(lambda: self.target(*self.args), self.name)

class FakeThreading:
    Lock = Lock; Condition = Condition; Thread = Thread
