import sys, time, re, logging
logging.disable(logging.CRITICAL)
sys.path.insert(0, __import__("os").path.dirname(__import__("os").path.abspath(__file__)))
import wsxprobe                      # installs instrumenting finder for waitress.*
import sym
from sym import *
wsxprobe.__sx_in__ = sym.sx_in
import waitress.parser as P, waitress.receiver as R, waitress.rfc7230 as RF
from waitress.adjustments import Adjustments
for mod in (P, R):
    mod.__dict__["__sx_in__"] = sym.sx_in
    for name, val in list(vars(mod).items()):
        if isinstance(val, re.Pattern):
            setattr(mod, name, SymPattern(val))
    mod.int = sym.sym_int2
    mod.str = lambda x='', *a: (x.decode(*a) if isinstance(x, sym.SymBytes) and a else (x if isinstance(x, sym.SymStr) else str(x, *a)))
adj = Adjustments()
_real_split = P.split_uri
def _split_uri(uri):
    if isinstance(uri, sym.SymBytes): return ('', '', uri.decode('latin-1'), '', '')
    return _real_split(uri)
P.split_uri = _split_uri
class Parser(P.HTTPRequestParser):
    def __init__(self, adj):
        super().__init__(adj); self.headers = SymDict()

SK = sys.argv[1].encode().decode("unicode_escape").encode("latin-1")
W = int(sys.argv[2])
tot = dict(paths=0, t=0.0, q=0)
from collections import Counter
agg = Counter()
for pos in range(0, len(SK) - W + 1):
    eng = Engine()
    def harness():
        win = SymBytes.fresh(W)
        data = SK[:pos] + win + SK[pos + W:]
        out = []
        for _ in range(3):
            if not len(data): break
            p = Parser(adj)
            n = p.received(data); data = data[n:]
            while len(data) and not p.completed:
                m = p.received(data); data = data[m:]
                if not m: break
            if not p.completed: out.append("inc"); break
            if p.empty: continue
            out.append(p.error.code if p.error else "ok")
            if p.error: break
        return tuple(out)
    t = time.time()
    try:
        res = eng.explore(harness)
    except BaseException as e:
        print("pos", pos, "ENGINE", type(e).__name__, e); raise
    dt = time.time() - t
    tot["paths"] += eng.stats["paths"]; tot["t"] += dt; tot["q"] += eng.stats["solver_calls"]
    agg.update(res)
    print("pos %2d %-8r paths %5d  %.1fs" % (pos, SK[pos:pos+W], eng.stats["paths"], dt), dict(Counter(res)))
print("TOTAL", tot, dict(agg))
