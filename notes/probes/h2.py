import time, sys
import sched, sym
from sym import Engine
import waitress.task as T
T.threading = sched.FakeThreading
NW, NT = int(sys.argv[1]), int(sys.argv[2]); sched.BOUND=int(sys.argv[3])
import logging; logging.disable(logging.CRITICAL)
eng = Engine()
bad = []
def harness():
    s = sched.Sched(eng); sched.CUR = s
    log = []
    class Task:
        def __init__(self, i): self.i = i
        def service(self): log.append(("s", self.i)); 
        def cancel(self): log.append(("c", self.i))
    d = T.ThreadedTaskDispatcher()
    def main():
        d.set_thread_count(NW)
        for i in range(NT): d.add_task(Task(i))
        d.set_thread_count(0)
    s.spawn(main, "main")
    s.run()
    err = s.error
    q = len(d.queue); live = [t.name for t in s.threads if t.state != "done"]
    s.killall()
    if err: raise err if isinstance(err, sym.PathAbort) else Exception(repr(err))
    cnt = {}
    for k, i in log: cnt[i] = cnt.get(i, 0) + 1
    ok = all(cnt.get(i, 0) + (1 if i >= NT - q else 0) == 1 for i in range(NT)) and not live
    if not ok: bad.append((log, q, live))
    return (tuple(log), q, tuple(live))
t = time.time()
res = eng.explore(harness)
print("workers", NW, "tasks", NT, "schedules", len(res), "distinct outcomes", len(set(res)), "time %.1f" % (time.time() - t), eng.stats, "bad", len(bad))
if bad: print(bad[0])
