import time, re, z3
import re._parser as sp, re._constants as sc
from waitress import rfc7230 as R
import waitress.parser as P

ALL = z3.Range(chr(0), chr(255))
def cls(items):
    neg=False; parts=[]
    for op,av in items:
        if op is sc.NEGATE: neg=True
        elif op is sc.LITERAL: parts.append(z3.Re(chr(av)))
        elif op is sc.RANGE: parts.append(z3.Range(chr(av[0]),chr(av[1])))
        else: raise Exception(op)
    r = parts[0] if len(parts)==1 else z3.Union(*parts)
    if neg: r = z3.Intersect(ALL, z3.Complement(r))
    return r
EPS = z3.Re("")
def seq(ops):
    rs=[one(o) for o in ops]
    rs=[r for r in rs if r is not None]
    if not rs: return EPS
    return rs[0] if len(rs)==1 else z3.Concat(*rs)
def one(o):
    op,av=o
    if op is sc.LITERAL: return z3.Re(chr(av))
    if op is sc.NOT_LITERAL: return z3.Intersect(ALL, z3.Complement(z3.Re(chr(av))))
    if op is sc.IN: return cls(av)
    if op is sc.ANY: return z3.Intersect(ALL, z3.Complement(z3.Re("\n")))
    if op is sc.SUBPATTERN: return seq(av[3])
    if op is sc.BRANCH: return z3.Union(*[seq(a) for a in av[1]])
    if op in (sc.MAX_REPEAT, sc.MIN_REPEAT):
        lo,hi,sub=av; r=seq(sub)
        if hi is sc.MAXREPEAT:
            return z3.Star(r) if lo==0 else (z3.Plus(r) if lo==1 else z3.Concat(*([r]*lo+[z3.Star(r)])))
        return z3.Loop(r, lo, hi)
    if op is sc.AT:
        if av is sc.AT_BEGINNING: return None   # only valid at start with match()
        if av is sc.AT_END: return z3.Union(EPS, z3.Re("\n"))  # only valid as last op
        if av is sc.AT_END_STRING: return None
    raise Exception(o)

def lang(pat, mode):
    tree=list(sp.parse(pat.pattern, pat.flags))
    r=seq(tree)
    if mode=="match" and not (tree and tree[-1]==(sc.AT, sc.AT_END)) :
        r=z3.Concat(r, z3.Star(ALL))
    return r

def decide(name, impl, spec):
    s=z3.String("s")
    for lbl,a,b in (("impl-minus-spec",impl,spec),("spec-minus-impl",spec,impl)):
        sol=z3.Solver(); sol.set("timeout",60000)
        sol.add(z3.InRe(s,a), z3.Not(z3.InRe(s,b)))
        t=time.time(); r=sol.check(); dt=time.time()-t
        print(name,lbl,r, "%.2fs"%dt, repr(sol.model()[s].as_string()) if r==z3.sat else "")

HEX=z3.Union(z3.Range("0","9"),z3.Range("a","f"),z3.Range("A","F"))
decide("hexdig", lang(R.ONLY_HEXDIG_RE,"match"), z3.Plus(HEX))
decide("digit", lang(R.ONLY_DIGIT_RE,"match"), z3.Plus(z3.Range("0","9")))
tchar=z3.Union(*[z3.Re(c) for c in "!#$%&'*+-.^_`|~"], z3.Range("0","9"), z3.Range("a","z"), z3.Range("A","Z"))
token=z3.Plus(tchar)
obs=z3.Range(chr(0x80),chr(0xff))
qdtext=z3.Union(z3.Re("\t"),z3.Re(" "),z3.Re("!"),z3.Range("#","["),z3.Range("]","~"),obs)
qpair=z3.Concat(z3.Re("\\"), z3.Union(z3.Re("\t"),z3.Re(" "),z3.Range("!","~"),obs))
qs=z3.Concat(z3.Re('"'), z3.Star(z3.Union(qdtext,qpair)), z3.Re('"'))
ext=z3.Star(z3.Concat(z3.Re(";"),token,z3.Option(z3.Concat(z3.Re("="),z3.Union(token,qs)))))
decide("chunkext", lang(R.CHUNK_EXT_RE,"match"), ext)
ows=z3.Star(z3.Union(z3.Re(" "),z3.Re("\t")))
vch=z3.Union(z3.Range("!","~"),obs)
fcontent=z3.Concat(vch, z3.Option(z3.Concat(z3.Star(z3.Union(z3.Re(" "),z3.Re("\t"),vch)), vch)))
fvalue=z3.Star(fcontent)
hdr=z3.Concat(token,z3.Re(":"),ows,fvalue,ows)
decide("header", lang(R.HEADER_FIELD_RE,"match"), hdr)
