"""Prototype: proxy-based symbolic execution with z3 (feasibility probe only)."""
import re, time
try:
    import re._parser as sre_parse
    import re._constants as sre_c
except ImportError:
    import sre_parse, sre_constants as sre_c
import z3


class PathAbort(BaseException):
    pass


class Unsupported(BaseException):
    pass


class Engine:
    cur = None

    def __init__(self):
        self.solver = z3.Solver()
        self.stats = dict(paths=0, solver_calls=0, solver_time=0.0, forks=0)
        self.nvars = 0

    # ---- exploration
    def explore(self, fn, max_paths=10**9):
        Engine.cur = self
        prefix = []
        results = []
        while True:
            self.trace = []  # list of [value, alt_feasible]
            self.prefix = prefix
            self.pos = 0
            self.nvars = 0
            self.solver.reset()
            self.model = None
            try:
                r = fn()
                results.append(r)
            except PathAbort:
                pass
            self.stats["paths"] += 1
            if self.stats["paths"] >= max_paths:
                break
            tr = self.trace
            while tr and not tr[-1][1]:
                tr.pop()
            if not tr:
                break
            prefix = [[v, a] for v, a in tr]
            prefix[-1] = [not prefix[-1][0], False]
        return results

    def fresh_bv(self, name, bits=8):
        self.nvars += 1
        return z3.BitVec(f"{name}_{self.nvars}", bits)

    def check(self, *extra):
        t = time.time()
        self.solver.push()
        self.solver.add(*extra)
        r = self.solver.check()
        m = self.solver.model() if r == z3.sat else None
        self.solver.pop()
        self.stats["solver_calls"] += 1
        self.stats["solver_time"] += time.time() - t
        if r == z3.unknown:
            raise Unsupported("solver unknown")
        return r == z3.sat, m

    def branch(self, cond):
        """cond: z3 BoolRef. Returns concrete bool, records decision."""
        cond = z3.simplify(cond)
        if z3.is_true(cond):
            return True
        if z3.is_false(cond):
            return False
        if self.pos < len(self.prefix):
            v, alt = self.prefix[self.pos]
            self.pos += 1
            self.trace.append([v, alt])
            self.solver.add(cond if v else z3.Not(cond))
            self.model = None
            return v
        # new decision
        mv = None
        if self.model is not None:
            mv = z3.is_true(self.model.eval(cond, model_completion=True))
        if mv is None:
            sat_t, m_t = self.check(cond)
            sat_f, m_f = self.check(z3.Not(cond))
        elif mv:
            sat_t, m_t = True, self.model
            sat_f, m_f = self.check(z3.Not(cond))
        else:
            sat_f, m_f = True, self.model
            sat_t, m_t = self.check(cond)
        if sat_t and sat_f:
            self.stats["forks"] += 1
            v = True
            self.trace.append([True, True])
            self.model = m_t
        elif sat_t:
            v = True
            self.trace.append([True, False])
            self.model = m_t
        elif sat_f:
            v = False
            self.trace.append([False, False])
            self.model = m_f
        else:
            raise PathAbort()
        self.pos += 1
        self.solver.add(cond if v else z3.Not(cond))
        return v


def E():
    return Engine.cur


class SymBool:
    def __init__(self, e):
        self.e = e

    def __bool__(self):
        return E().branch(self.e)

    def __invert__(self):
        return SymBool(z3.Not(self.e))


def tobool(x):
    return x.e if isinstance(x, SymBool) else z3.BoolVal(bool(x))


class SymInt:
    def __init__(self, e):
        self.e = e

    def _o(self, o):
        return o.e if isinstance(o, SymInt) else z3.IntVal(o)

    def __gt__(self, o): return SymBool(self.e > self._o(o))
    def __ge__(self, o): return SymBool(self.e >= self._o(o))
    def __lt__(self, o): return SymBool(self.e < self._o(o))
    def __le__(self, o): return SymBool(self.e <= self._o(o))
    def __eq__(self, o): return SymBool(self.e == self._o(o))
    def __ne__(self, o): return SymBool(self.e != self._o(o))
    def __add__(self, o): return mkint(self.e + self._o(o))
    __radd__ = __add__
    def __mul__(self, o): return mkint(self.e * self._o(o))
    __rmul__ = __mul__
    def __sub__(self, o): return mkint(self.e - self._o(o))
    def __rsub__(self, o): return mkint(self._o(o) - self.e)
    def __hash__(self): return self.__index__()

    def __index__(self):
        # concretise by forking on model value
        eng = E()
        while True:
            ok, m = eng.check()
            if not ok:
                raise PathAbort()
            v = m.eval(self.e, model_completion=True).as_long()
            if eng.branch(self.e == v):
                return v

    def clamp_index(self, n):
        """value used as slice bound against length n -> concrete in [0,n]"""
        if self >= n:
            return n
        if self <= 0:
            return 0
        return self.__index__()


def mkint(e):
    e = z3.simplify(e)
    if z3.is_int_value(e):
        return e.as_long()
    return SymInt(e)


def cell_const(c):
    return z3.BitVecVal(c, 8)


class SymBytes:
    """bytes with concrete length; cells are python ints or z3 BV8 exprs"""

    def __init__(self, cells):
        self.c = list(cells)

    @staticmethod
    def lift(x):
        if isinstance(x, SymBytes):
            return x
        if isinstance(x, (bytes, bytearray)):
            return SymBytes(list(x))
        if isinstance(x, str):
            return SymBytes(list(x.encode('latin-1')))
        raise Unsupported(f"lift {type(x)}")

    @staticmethod
    def fresh(n, name="b"):
        return SymBytes([E().fresh_bv(name) for _ in range(n)])

    def concrete(self):
        return all(isinstance(x, int) for x in self.c)

    def simplify(self):
        if self.concrete():
            return bytes(self.c)
        return self

    def __len__(self):
        return len(self.c)

    def __bool__(self):
        return len(self.c) > 0

    def __add__(self, o):
        return SymBytes(self.c + SymBytes.lift(o).c).simplify()

    def __radd__(self, o):
        return SymBytes(SymBytes.lift(o).c + self.c).simplify()

    def __getitem__(self, k):
        if isinstance(k, slice):
            def fix(v):
                if isinstance(v, SymInt):
                    return v.clamp_index(len(self.c))
                return v
            assert k.step is None
            return SymBytes(self.c[fix(k.start):fix(k.stop)]).simplify()
        if isinstance(k, SymInt):
            k = k.__index__()
        x = self.c[k]
        return x if isinstance(x, int) else SymInt(z3.BV2Int(x))

    @staticmethod
    def _celleq(a, b):
        if isinstance(a, int) and isinstance(b, int):
            return z3.BoolVal(a == b)
        a = cell_const(a) if isinstance(a, int) else a
        b = cell_const(b) if isinstance(b, int) else b
        return a == b

    def _match_at(self, i, pat):
        return z3.And([self._celleq(self.c[i + j], pat[j]) for j in range(len(pat))] or [z3.BoolVal(True)])

    def __eq__(self, o):
        if not isinstance(o, (bytes, SymBytes)):
            return False
        o = SymBytes.lift(o)
        if len(o) != len(self):
            return False
        return SymBool(self._match_at(0, o.c))

    def __ne__(self, o):
        r = self.__eq__(o)
        return (not r) if isinstance(r, bool) else ~r

    def find(self, pat, start=0):
        pat = SymBytes.lift(pat).c
        n, m = len(self.c), len(pat)
        for i in range(start, n - m + 1):
            if SymBool(self._match_at(i, pat)):
                return i
        return -1

    def __contains__(self, pat):
        if isinstance(pat, int):
            pat = bytes([pat])
        return self.find(pat) >= 0

    def startswith(self, pat):
        if isinstance(pat, tuple):
            return any(self.startswith(p) for p in pat)
        pat = SymBytes.lift(pat).c
        if len(pat) > len(self.c):
            return False
        return bool(SymBool(self._match_at(0, pat)))

    def __iter__(self):
        for i in range(len(self.c)):
            yield self[i]

    def __repr__(self):
        return "SymBytes(%r)" % (self.c,)

    def eval(self, model):
        out = []
        for x in self.c:
            if isinstance(x, int):
                out.append(x)
            else:
                out.append(model.eval(x, model_completion=True).as_long())
        return bytes(out)


# ---------------- regex: backtracking matcher over cells, python priority order

class SymMatch:
    def __init__(self, s, groups, names, end):
        self.s, self.groups, self.names, self._end = s, groups, names, end

    def end(self):
        return self._end

    def group(self, *ks):
        r = []
        for k in ks:
            if isinstance(k, str):
                k = self.names[k]
            if k == 0:
                r.append(self.s[0:self._end])
            elif k in self.groups:
                a, b = self.groups[k]
                r.append(self.s[a:b])
            else:
                r.append(None)
        return r[0] if len(r) == 1 else tuple(r)

    __getitem__ = group


class SymPattern:
    def __init__(self, real):
        self.real = real
        self.pattern = real.pattern
        self.tree = sre_parse.parse(real.pattern, real.flags)
        self.names = dict(real.groupindex)

    def match(self, s):
        if isinstance(s, (bytes, str)):
            return self.real.match(s)
        return self._run(s, full=False)

    def fullmatch(self, s):
        if isinstance(s, (bytes, str)):
            return self.real.fullmatch(s)
        return self._run(s, full=True)

    def _run(self, s, full):
        cells = s.c
        n = len(cells)

        def final(i, g):
            if full and i != n:
                return None
            return (i, g)

        r = self._m(list(self.tree), 0, cells, {}, final)
        if r is None:
            return None
        i, g = r
        return SymMatch(s, g, self.names, i)

    def _cls(self, cell, items):
        """returns z3 bool / python bool for membership of cell in a class (list of (op, arg))"""
        neg = False
        conds = []
        for op, av in items:
            if op is sre_c.NEGATE:
                neg = True
            elif op is sre_c.LITERAL:
                conds.append(("eq", av))
            elif op is sre_c.RANGE:
                conds.append(("rng", av))
            else:
                raise Unsupported(f"class op {op}")
        if isinstance(cell, int):
            r = any((c[1] == cell) if c[0] == "eq" else (c[1][0] <= cell <= c[1][1]) for c in conds)
            return (not r) if neg else r
        zs = []
        for c in conds:
            if c[0] == "eq":
                zs.append(cell == c[1])
            else:
                zs.append(z3.And(z3.UGE(cell, c[1][0]), z3.ULE(cell, c[1][1])))
        e = z3.Or(zs) if zs else z3.BoolVal(False)
        return z3.Not(e) if neg else e

    def _test(self, cell, op, av):
        if op is sre_c.LITERAL:
            r = (cell == av)
        elif op is sre_c.NOT_LITERAL:
            r = (cell != av)
        elif op is sre_c.IN:
            r = self._cls(cell, av)
        elif op is sre_c.ANY:
            r = (cell != 10)
        else:
            raise Unsupported(op)
        if isinstance(r, bool):
            return r
        return bool(SymBool(r))

    def _m(self, ops, i, cells, g, k):
        """match ops starting at i, continuation k(i, groups) -> result or None"""
        if not ops:
            return k(i, g)
        (op, av), rest = ops[0], ops[1:]
        n = len(cells)
        if op in (sre_c.LITERAL, sre_c.NOT_LITERAL, sre_c.IN, sre_c.ANY):
            if i < n and self._test(cells[i], op, av):
                return self._m(rest, i + 1, cells, g, k)
            return None
        if op is sre_c.AT:
            if av is sre_c.AT_BEGINNING or av is sre_c.AT_BEGINNING_STRING:
                ok = i == 0
            elif av is sre_c.AT_END_STRING:
                ok = i == n
            elif av is sre_c.AT_END:
                if i == n:
                    ok = True
                elif i == n - 1:
                    ok = self._test(cells[i], sre_c.LITERAL, 10)
                else:
                    ok = False
            else:
                raise Unsupported(av)
            return self._m(rest, i, cells, g, k) if ok else None
        if op is sre_c.SUBPATTERN:
            gid, _, _, sub = av
            def k2(j, g2):
                g3 = dict(g2)
                if gid is not None:
                    g3[gid] = (i, j)
                return self._m(rest, j, cells, g3, k)
            return self._m(list(sub), i, cells, g, k2)
        if op is sre_c.BRANCH:
            for alt in av[1]:
                r = self._m(list(alt) + rest, i, cells, g, k)
                if r is not None:
                    return r
            return None
        if op in (sre_c.MAX_REPEAT, sre_c.MIN_REPEAT):
            lo, hi, sub = av
            sub = list(sub)
            greedy = op is sre_c.MAX_REPEAT

            def rep(count, j, g2):
                def more():
                    if count < hi:
                        def k2(j2, g3):
                            if j2 == j and count >= lo:
                                return None  # empty iteration guard
                            return rep(count + 1, j2, g3)
                        return self._m(sub, j, cells, g2, k2)
                    return None

                def stop():
                    if count >= lo:
                        return self._m(rest, j, cells, g2, k)
                    return None

                for f in ((more, stop) if greedy else (stop, more)):
                    r = f()
                    if r is not None:
                        return r
                return None

            return rep(0, i, g)
        raise Unsupported(f"regex op {op}")


_WS = (9, 10, 11, 12, 13, 32)


def sym_int(x, base=10):
    """model of int(bytes-like, base) for SymBytes; only digits-only fast path, else full python syntax via forks"""
    if not isinstance(x, SymBytes):
        return int(x, base) if base != 10 or isinstance(x, (bytes, str)) else int(x)
    cells = list(x.c)

    def isin(cell, vals):
        if isinstance(cell, int):
            return cell in vals
        return bool(SymBool(z3.Or([cell == v for v in vals])))

    # strip whitespace
    while cells and isin(cells[0], _WS):
        cells.pop(0)
    while cells and isin(cells[-1], _WS):
        cells.pop()
    sign = 1
    if cells and isin(cells[0], (43, 45)):
        if isin(cells[0], (45,)):
            sign = -1
        cells.pop(0)
    if base == 16 and len(cells) >= 2 and isin(cells[0], (48,)) and isin(cells[1], (88, 120)):
        cells = cells[2:]
        if cells and isin(cells[0], (95,)):
            cells.pop(0)
    if not cells:
        raise ValueError("invalid literal")
    val = z3.IntVal(0)
    prev_us = True
    for idx, c in enumerate(cells):
        if isin(c, (95,)):
            if prev_us:
                raise ValueError("invalid literal")
            prev_us = True
            continue
        prev_us = False
        if isinstance(c, int):
            ch = chr(c)
            d = int(ch, base)  # raises ValueError
            val = val * base + d
            continue
        if bool(SymBool(z3.And(z3.UGE(c, 48), z3.ULE(c, 57)))):
            d = z3.BV2Int(c) - 48
        elif base == 16 and bool(SymBool(z3.And(z3.UGE(c, 97), z3.ULE(c, 102)))):
            d = z3.BV2Int(c) - 87
        elif base == 16 and bool(SymBool(z3.And(z3.UGE(c, 65), z3.ULE(c, 70)))):
            d = z3.BV2Int(c) - 55
        else:
            raise ValueError("invalid literal")
        val = val * base + d
    if prev_us:
        raise ValueError("invalid literal")
    return mkint(val * sign)


# ---------------- extensions for the parse_header probe
_WSB = (9, 10, 11, 12, 13, 32)

def _isin(cell, vals):
    if isinstance(cell, int):
        return cell in vals
    return bool(SymBool(z3.Or([cell == v for v in vals])))

def _strip(self, chars=None, left=True, right=True):
    vals = _WSB if chars is None else tuple(SymBytes.lift(chars).c)
    c = list(self.c)
    if left:
        while c and _isin(c[0], vals): c.pop(0)
    if right:
        while c and _isin(c[-1], vals): c.pop()
    return self._mk(c)
SymBytes._mk = lambda self, c: type(self)(c).simplify()
SymBytes.strip = lambda self, chars=None: _strip(self, chars)
SymBytes.lstrip = lambda self, chars=None: _strip(self, chars, right=False)
SymBytes.rstrip = lambda self, chars=None: _strip(self, chars, left=False)

def _split(self, sep, maxsplit=-1):
    sep = SymBytes.lift(sep).c if not isinstance(sep, str) else [ord(x) for x in sep]
    out = []; start = 0; i = 0; n = len(self.c); m = len(sep)
    while i <= n - m and maxsplit != 0:
        if SymBool(self._match_at(i, sep)):
            out.append(self._mk(self.c[start:i])); i += m; start = i; maxsplit -= 1
        else:
            i += 1
    out.append(self._mk(self.c[start:]))
    return out
SymBytes.split = _split

def _map(self, f):
    out = []
    for x in self.c:
        out.append(f(x))
    return self._mk(out)
def _upper(x):
    if isinstance(x, int): return x - 32 if 97 <= x <= 122 else x
    return z3.If(z3.And(z3.UGE(x, 97), z3.ULE(x, 122)), x - 32, x)
def _lower(x):
    if isinstance(x, int): return x + 32 if 65 <= x <= 90 else x
    return z3.If(z3.And(z3.UGE(x, 65), z3.ULE(x, 90)), x + 32, x)
SymBytes.upper = lambda self: _map(self, _upper)
SymBytes.lower = lambda self: _map(self, _lower)
def _replace(self, a, b):
    a = SymBytes.lift(a).c if not isinstance(a, str) else [ord(a)]
    b = SymBytes.lift(b).c if not isinstance(b, str) else [ord(b)]
    assert len(a) == 1 and len(b) == 1
    def f(x):
        if isinstance(x, int): return b[0] if x == a[0] else x
        return z3.If(x == a[0], z3.BitVecVal(b[0], 8), x)
    return _map(self, f)
SymBytes.replace = _replace

class SymStr(SymBytes):
    def simplify(self):
        if self.concrete():
            return bytes(self.c).decode("latin-1")
        return self
    @staticmethod
    def lift(x):
        if isinstance(x, SymBytes): return x
        if isinstance(x, str): return SymStr(list(x.encode("latin-1")))
        return SymBytes.lift(x)
    def encode(self, enc="latin-1"): return SymBytes(self.c).simplify()
    def __format__(self, spec): return "<sym>"
    def __str__(self): return "<sym>"
    def __eq__(self, o):
        if isinstance(o, str): o = SymStr.lift(o)
        if not isinstance(o, SymBytes): return False
        if len(o) != len(self): return False
        return SymBool(self._match_at(0, o.c))
    def __ne__(self, o):
        r = self.__eq__(o)
        return (not r) if isinstance(r, bool) else ~r
    def __add__(self, o): return SymStr(self.c + SymStr.lift(o).c).simplify()
    def __radd__(self, o): return SymStr(SymStr.lift(o).c + self.c).simplify()
    def __hash__(self): raise Unsupported("hash of SymStr")
    def split(self, sep, maxsplit=-1): return _split(self, sep, maxsplit)
SymBytes.decode = lambda self, enc="latin-1": SymStr(self.c).simplify()
SymBytes.__hash__ = lambda self: (_ for _ in ()).throw(Unsupported("hash of SymBytes"))

def sx_eq(a, b):
    r = (a == b)
    if r is NotImplemented: r = (b == a)
    return bool(r)

class SymDict:
    def __init__(self): self.k = []; self.v = []
    def _idx(self, key):
        for i, k in enumerate(self.k):
            if sx_eq(k, key): return i
        return -1
    def __contains__(self, key): return self._idx(key) >= 0
    def __getitem__(self, key):
        i = self._idx(key)
        if i < 0: raise KeyError(key)
        return self.v[i]
    def __setitem__(self, key, val):
        i = self._idx(key)
        if i < 0: self.k.append(key); self.v.append(val)
        else: self.v[i] = val
    def get(self, key, d=None):
        i = self._idx(key); return d if i < 0 else self.v[i]
    def pop(self, key, *d):
        i = self._idx(key)
        if i < 0:
            if d: return d[0]
            raise KeyError(key)
        self.k.pop(i); return self.v.pop(i)
    def items(self): return list(zip(self.k, self.v))

def sx_in(x, c, neg):
    if isinstance(x, SymBytes) and isinstance(c, (set, frozenset, dict, tuple, list)):
        r = any(sx_eq(x, k) for k in c)
    else:
        r = x in c
    return (not r) if neg else r

_old_sym_int = sym_int
def sym_int2(x, base=10):
    if isinstance(x, SymInt): return x
    if isinstance(x, SymBytes): return _old_sym_int(SymBytes(x.c), base)
    return int(x, base) if isinstance(x, (str, bytes)) and base != 10 else int(x)
