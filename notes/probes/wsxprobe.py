"""Probe: AST-instrumenting import hook for waitress; all-concrete delegation. pytest plugin."""
import ast, sys, importlib.abc, importlib.machinery, importlib.util, builtins, os

SRC = "/repo/src/waitress"
COUNT = {"call": 0, "fstr": 0, "mod": 0, "in": 0, "stmt": 0}

def __sx_call__(obj, name, /, *a, **k):
    COUNT["call"] += 1
    return getattr(obj, name)(*a, **k)
def __sx_fstr__(*parts):
    COUNT["fstr"] += 1
    return "".join(parts)
def __sx_fmt__(v, conv, spec):
    if conv == 115: v = str(v)
    elif conv == 114: v = repr(v)
    elif conv == 97: v = ascii(v)
    return format(v, spec)
def __sx_mod__(l, r):
    COUNT["mod"] += 1
    return l % r
def __sx_in__(x, c, neg):
    COUNT["in"] += 1
    return (x not in c) if neg else (x in c)
def __sx_yield__(ln):
    COUNT["stmt"] += 1

class T(ast.NodeTransformer):
    def visit_Call(self, node):
        self.generic_visit(node)
        f = node.func
        if isinstance(f, ast.Attribute):
            # skip super().x(...) : zero-arg super needs __class__ cell, still fine since super() call itself is untouched
            return ast.copy_location(ast.Call(func=ast.Name("__sx_call__", ast.Load()), args=[f.value, ast.Constant(f.attr)] + node.args, keywords=node.keywords), node)
        return node
    def visit_JoinedStr(self, node):
        self.generic_visit(node)
        parts = []
        for v in node.values:
            if isinstance(v, ast.Constant): parts.append(v)
            else:
                spec = v.format_spec if v.format_spec is not None else ast.Constant("")
                parts.append(ast.Call(ast.Name("__sx_fmt__", ast.Load()), [v.value, ast.Constant(v.conversion), spec], []))
        return ast.copy_location(ast.Call(ast.Name("__sx_fstr__", ast.Load()), parts, []), node)
    def visit_FormattedValue(self, node):
        self.generic_visit(node); return node
    def visit_BinOp(self, node):
        self.generic_visit(node)
        if isinstance(node.op, ast.Mod):
            return ast.copy_location(ast.Call(ast.Name("__sx_mod__", ast.Load()), [node.left, node.right], []), node)
        return node
    def visit_Compare(self, node):
        self.generic_visit(node)
        if len(node.ops) == 1 and isinstance(node.ops[0], (ast.In, ast.NotIn)):
            return ast.copy_location(ast.Call(ast.Name("__sx_in__", ast.Load()), [node.left, node.comparators[0], ast.Constant(isinstance(node.ops[0], ast.NotIn))], []), node)
        return node
    def _body(self, body):
        out = []
        for s in body:
            if not (isinstance(s, ast.Expr) and isinstance(s.value, ast.Constant) and isinstance(s.value.value, str)):
                y = ast.Expr(ast.Call(ast.Name("__sx_yield__", ast.Load()), [ast.Constant(getattr(s, "lineno", 0))], []))
                out.append(ast.copy_location(y, s))
            out.append(s)
        return out
    def visit_FunctionDef(self, node):
        self.generic_visit(node)
        node.body = self._body(node.body)
        return node

class Loader(importlib.abc.Loader):
    def __init__(self, path): self.path = path
    def create_module(self, spec): return None
    def exec_module(self, module):
        src = open(self.path).read()
        tree = T().visit(ast.parse(src, self.path))
        ast.fix_missing_locations(tree)
        code = compile(tree, self.path, "exec")
        module.__dict__.update(__sx_call__=__sx_call__, __sx_fstr__=__sx_fstr__, __sx_fmt__=__sx_fmt__, __sx_mod__=__sx_mod__, __sx_in__=__sx_in__, __sx_yield__=__sx_yield__)
        exec(code, module.__dict__)

class Finder(importlib.abc.MetaPathFinder):
    def find_spec(self, name, path, target=None):
        if name == "waitress" or name.startswith("waitress."):
            rel = name.split(".")[1:]
            p = os.path.join(SRC, *rel)
            if os.path.isdir(p):
                return importlib.util.spec_from_file_location(name, os.path.join(p, "__init__.py"), loader=Loader(os.path.join(p, "__init__.py")), submodule_search_locations=[p])
            if os.path.exists(p + ".py"):
                return importlib.util.spec_from_file_location(name, p + ".py", loader=Loader(p + ".py"))
        return None

sys.meta_path.insert(0, Finder())
def pytest_sessionfinish(session, exitstatus):
    print("\nWSXPROBE counts", COUNT)
