import sys, time, re
import sym
from sym import *
import waitress.receiver as R
import waitress.rfc7230 as RF
from waitress.buffers import OverflowableBuffer

# patch C boundaries in module namespace
for name, val in list(vars(R).items()):
    if isinstance(val, re.Pattern):
        setattr(R, name, SymPattern(val))
R.int = sym_int

N = int(sys.argv[1])
eng = Engine()
viol = []

def spec_chunked(cells_sb):
    """reference: strict RFC 9112 chunked decoder over SymBytes. returns ('ok', body, consumed) | ('err',) | ('more',)"""
    s = cells_sb
    n = len(s)
    i = 0
    body = b""
    HEX = b"0123456789abcdefABCDEF"
    def isin(v, rng):
        # v: int or SymInt
        r = False
        for a, b in rng:
            t = (v >= a) 
            if t:
                t2 = (v <= b)
                if t2: return True
        return False
    def hexval(v):
        if isin(v, [(48,57)]): return v - 48
        if isin(v, [(97,102)]): return v - 87
        if isin(v, [(65,70)]): return v - 55
        return None
    while True:
        # chunk-size
        size = 0; nd = 0
        while True:
            if i >= n: return ("more",)
            h = hexval(s[i])
            if h is None: break
            size = size * 16 + h; nd += 1; i += 1
        if nd == 0: return ("err",)
        # ext: skip to CRLF strictly: here only allow none for probe (ext handled separately)
        if i >= n: return ("more",)
        c = s[i]
        if c == 59:
            return ("ext",)
        if not (c == 13): return ("err",)
        i += 1
        if i >= n: return ("more",)
        if not (s[i] == 10): return ("err",)
        i += 1
        if size == 0:
            break
        if isinstance(size, SymInt):
            if size > n - i:
                return ("more",)
            size = size.__index__()
        if size > n - i: return ("more",)
        body = body + s[i:i+size]; i += size
        if i >= n: return ("more",)
        if not (s[i] == 13): return ("err",)
        i += 1
        if i >= n: return ("more",)
        if not (s[i] == 10): return ("err",)
        i += 1
    # trailer: only empty trailer in probe
    if i >= n: return ("more",)
    if not (s[i] == 13): return ("trailer",)
    i += 1
    if i >= n: return ("more",)
    if not (s[i] == 10): return ("err",)
    i += 1
    return ("ok", body, i)

def harness():
    data = SymBytes.fresh(N)
    buf = OverflowableBuffer(10**6)
    r = R.ChunkedReceiver(buf)
    n = r.received(data)
    impl = ("err",) if r.error else (("ok", buf.strbuf, n) if r.completed else ("more",))
    ref = spec_chunked(data)
    if ref[0] in ("ext", "trailer"):
        return "skip"
    ok = True
    if impl[0] != ref[0]:
        ok = False
    elif impl[0] == "ok":
        if impl[2] != ref[2]: ok = False
        else:
            a, b = impl[1], ref[1]
            if len(a) != len(b): ok = False
            elif len(a):
                eq = (SymBytes.lift(a) == b)
                if not eq: ok = False
    if not ok:
        sat, m = eng.check()
        viol.append((data.eval(m), impl[0], ref[0]))
    return impl[0]

t = time.time()
res = eng.explore(harness)
from collections import Counter
print("N", N, "time %.1f" % (time.time() - t), eng.stats, Counter(res))
seen = set()
for v in viol:
    if (v[1], v[2]) not in seen:
        seen.add((v[1], v[2])); print("VIOL", v)
print(len(viol), "violating paths")
