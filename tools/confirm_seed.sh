#!/bin/sh
# usage: tools/confirm_seed.sh <worktree> <mutant-dir> <seed-id>
# confirms in the scratch worktree: patch applies, the unedited suite passes with it, demo fails with / passes without it;
# then stores patch.diff, demo.py, meta.json under /verif/seeded/<seed-id>/
WT="$1"; M="$2"; ID="$3"
git -C "$WT" checkout -q -- . || exit 3
git -C "$WT" apply "$M/patch.diff" || { echo "PATCH-DOES-NOT-APPLY"; exit 3; }
T=$(cd "$WT" && PYTHONPATH="$WT/src" /venv/bin/python -m pytest -q -p no:cacheprovider --no-cov tests 2>&1 | tail -1)
(cd "$WT" && PYTHONPATH="$WT/src" timeout 120 /venv/bin/python "$M/demo.py" >/tmp/demo_with.out 2>&1); W=$?
git -C "$WT" checkout -q -- .
(cd "$WT" && PYTHONPATH="$WT/src" timeout 120 /venv/bin/python "$M/demo.py" >/tmp/demo_without.out 2>&1); WO=$?
echo "$ID: tests=[$T] demo_with_patch_exit=$W demo_without_patch_exit=$WO"
case "$T" in *"795 passed"*) ;; *) echo "  NOT KEPT (tests)"; exit 1;; esac
[ "$W" != "0" ] && [ "$WO" = "0" ] || { echo "  NOT KEPT (demo)"; exit 1; }
mkdir -p /verif/seeded/$ID
cp "$M/patch.diff" "$M/demo.py" /verif/seeded/$ID/
python3 - "$M/meta.json" /verif/seeded/$ID/meta.json "$T" "$W" "$WO" <<'P'
import json, sys
m = json.load(open(sys.argv[1]))
m["confirmed"] = {"suite_with_patch": sys.argv[3], "demo_exit_with_patch": int(sys.argv[4]), "demo_exit_without_patch": int(sys.argv[5]),
                  "ran": "tools/confirm_seed.sh in a scratch git worktree of /repo (patch applied, suite run, demo run with and without the patch)"}
json.dump(m, open(sys.argv[2], "w"), indent=1)
P
