#!/bin/sh
# usage: tools/try_seed.sh <patch.diff> <check args...>   e.g. tools/try_seed.sh /tmp/x/patch.diff C10 --only LANG
# applies the patch to /repo, runs ./check, reverts /repo.  Prints the verdict line.
P="$1"; shift
cd /verif
git -C /repo apply "$P" || { echo "PATCH-DOES-NOT-APPLY"; exit 3; }
./check "$@" > /tmp/try_seed.out 2>&1; rc=$?
git -C /repo checkout -- . 
echo "exit=$rc"; grep -E "^VIOLATION|what:|^PASS|^INCONCLUSIVE|^  - " /tmp/try_seed.out | head -${SEED_LINES:-8} | cut -c1-260
