#!/usr/bin/env python3
"""Regenerates MANIFEST.json from the table below (kept here so that it stays valid and consistent)."""
import json, os
ROOT = os.path.dirname(os.path.dirname(os.path.abspath(__file__)))
props = [json.loads(l) for l in open(os.path.join(ROOT, "properties.jsonl"))]
TRUST = ("z3; the wsx proxy classes and loader (validated by running the repository's own 795 tests through the instrumenting "
         "loader and by a concrete re-run of every explored path on an uninstrumented copy, compared with the symbolic "
         "observation under the path's model); the listed stubs of the C boundary; the reference model in refs/")
CHECKS = {
 "C01": dict(level="model_checking", design="5/C01, appendix A.1",
   technique="per-path symbolic execution of the real parser/receiver/channel/task code (z3, bit-vector cells) vs an RFC 9112 reference on the same symbolic stream",
   text="Every byte value of a w-byte symbolic window at every position of 27 request skeletons, all byte strings up to a bound in each chunked-decoder phase / header block / request line, and numeric fields of <=3-4 symbolic bytes are run through the real HTTPChannel.received -> HTTPRequestParser -> receivers -> task pipeline; for every path z3 decides whether application calls / error responses / close decision can differ from the strict RFC 9112 reading of the same symbolic bytes. Bounded (window width, lengths, corpus), exhaustive within the bound."),
 "C02": dict(level="model_checking", design="5/C02",
   technique="per-path symbolic execution of the real channel/parser/receiver code with the read segmentation (cut positions) and the bytes as symbolic variables; z3 decides equality of wire, application calls, close decision and pending-parser state between segmentations",
   text="Self-composition: the same symbolic stream is delivered once whole and once cut at a symbolic position (also two symbolic cuts and byte-at-a-time for the concrete skeletons); z3 decides for every path whether the bytes sent, the application calls, the close decision or the live state of the half-parsed request can differ. Equality of the live state is the inductive step that extends one cut to any segmentation of the streams in the family."),
 "C10": dict(level="model_checking", design="5/C10",
   technique="z3 regex-theory language inclusion (unbounded length) between the compiled patterns' translated parse trees and the ABNF, plus bounded symbolic execution of the real call sites",
   text="LANG: for each of the five gates the compiled pattern object waitress uses is translated from its sre parse tree (python semantics of ^ $ \\Z, method read from the call site AST) and z3 decides both inclusions against the independently written ABNF under the stated call-site precondition language - all lengths. SITE: all byte strings up to 4 (quick) / 6 (thorough) bytes at each gate go through the real parser/receiver and are compared with the RFC reference, which checks the precondition languages, the SP/HTAB-only stripping and the numeric conversion."),
 "C06": dict(level="model_checking", design="5/C06",
   technique="per-path symbolic execution of the real parser/receiver/channel/task code with the stream bytes, both size limits (z3 integers) and a read cut symbolic; z3 decides agreement with the RFC reference incl. the 431/413 rules, single error response, close and no further consumption",
   text="Both size limits are symbolic integers in [1, 4096], so every relation between a limit and each length the code compares it with is decided by linear arithmetic rather than sampled; crossed with 1-byte windows at every position of 8 skeletons, unterminated heads, all short byte strings in each chunked-decoder phase, digit runs around the 4300-digit conversion limit, and a symbolic read cut. Asserted per path: no exception leaves received()/service(), the refusal status the reference demands (convention-tolerant at the accounting edge), exactly one well-formed error response carrying Connection: close, connection closing, and a closing connection that parses nothing, calls nothing, sends nothing and is not readable."),
 "C16": dict(level="model_checking", design="5/C16",
   technique="per-path symbolic execution of the real proxy_headers middleware / parse_proxy_headers / undquote on symbolic header strings (z3 bit-vector cells); totality plus relational (self-composition) checks for untrusted kinds and untrusted hops",
   text="Each proxy header as a fully symbolic string of 0..5 (quick) / 0..7 (thorough) characters over the field-value alphabet: z3 shows on every path that the outcome is an application call or a 400 - never an exception or 500. Relational runs on the same symbolic values show that header kinds outside trusted_proxy_headers cannot change the seven metadata keys and are stripped, and that hops further left than trusted_proxy_count (symbolic content, may contain commas and quotes) change nothing the application sees; token hop lists of 1..5 elements with a symbolic window and trusted_proxy_count 1..4 show address/host come from exactly the count-th hop from the right."),
 "C15": dict(level="model_checking", design="5/C15",
   technique="relational (self-composition) per-path symbolic execution of the real server wrapping, parser, proxy middleware and environ construction: same request with and without symbolic proxy headers from a symbolic untrusted peer; z3 decides equality of the metadata keys",
   text="For 7 configurations x trusted_proxy_count 1..4 and a symbolic peer address different from the trusted proxy, every proxy header with a fully symbolic value (<=3 bytes quick, <=4 thorough), hostile templates with a symbolic byte at every position, and all six headers together are sent through the real TcpWSGIServer wrapping, HTTPChannel, parser and WSGITask; on every path z3 decides that the seven metadata keys equal those of the run without the headers and that, with clearing on, no proxy header key reaches the application."),
 "C08": dict(level="model_checking", design="5/C08",
   technique="per-path symbolic execution of the real start_response / build_response_header / channel.service 500 path with status, header names and values as symbolic unicode strings (21-bit cells); z3 decides line-exactness of the emitted head or the server-built 500",
   text="Status strings, header names and values with up to 4 (quick) / 5 (thorough) fully symbolic code points over [0,0xFF]+{U+2028,U+10000} - so the offending character and its position are symbolic - plus every hop-by-hop name with a symbolic character, non-str names/values/status, both start_response calls (exc_info before and after output) and a header list mutated after the call. Per path z3 decides: if any string contains CR/LF, is non-latin-1, hop-by-hop or not a str, the wire is the server-built 500 made of server strings only and the connection closes; otherwise the head's only CR/LF are terminators, the status line is the application's, each application field is exactly one line (name equal up to case) and every other line is a server field."),
 "C07": dict(level="model_checking", design="5/C07, appendix A.3",
   technique="per-path symbolic execution of the real parser -> WSGITask.get_environment -> body stream on skeleton+symbolic-window requests; z3 decides key-by-key equality with a PEP 3333 / RFC 3875 reference image computed from the same symbolic bytes",
   text="Seven request skeletons (origin/absolute/asterisk targets, valid and invalid percent escapes, repeated, underscore and CGI-looking field names, obs-text, CL and chunked bodies) with a symbolic byte (two in thorough) substituted and inserted at every position, crossed with url_prefix '', '/p', '/p/q', url_scheme and TCP/unix peers: for every path on which the RFC reference delivers the request, z3 decides that each of the 13 request/server variables and every header-derived key equals the reference image, that there are no extra or missing keys, that all strings are latin-1, that wsgi.input yields exactly the framed body and that CONTENT_LENGTH equals its length."),
}
NA = {}
checks = []
for p in props:
    pid = p["id"]
    if pid in CHECKS:
        c = CHECKS[pid]
        checks.append(dict(property_id=pid, quick_cmd="./check %s --tier quick" % pid, thorough_cmd="./check %s --tier thorough" % pid,
                           evidence_file="evidence/%s.json" % pid, replay_cmd_template="./check %s --replay {path}" % pid, engine="wsx",
                           level_claimed=dict(category=c["level"], text=c["text"], design_ref="DESIGN.md section " + c["design"]),
                           level_note=c.get("note", TRUST), technique=c["technique"]))
na = [dict(property_id=p["id"], reason=NA.get(p["id"], "not built yet (work in progress; build order in DESIGN.md section 8)")) for p in props if p["id"] not in CHECKS]
m = dict(version=1, setup_cmd="./setup.sh",
         hooks=dict(guard="WAITRESS_VERIF", enable="no source hooks: every check imports /repo/src/waitress from the working tree through /verif/wsx/loader.py (AST-instrumenting loader); nothing in /repo is modified or built", baseline_off_cmd="cd /repo && /venv/bin/python -m pytest -q -p no:cacheprovider", source_commits=[], add_only=True),
         engines=[dict(name="wsx", path="wsx/", serves_properties=sorted(CHECKS), kind_free_text="per-path symbolic execution of the real waitress source (proxy values + AST-instrumenting loader) with z3; decision-prefix DFS over 16 processes; per-path concolic cross-check; counterexamples replayed on the pristine tree")],
         checks=checks, not_applicable=na, notes="see DESIGN.md; known_findings.json lists repaired / recorded defects")
json.dump(m, open(os.path.join(ROOT, "MANIFEST.json"), "w"), indent=1)
print("checks:", [c["property_id"] for c in checks], "not_applicable:", len(na))
