#!/bin/sh
# usage: tools/try_seed_wt.sh <worktree> <patch.diff> <check args...>
# applies the patch inside the scratch worktree, runs ./check against that tree (WSX_WAITRESS_SRC), reverts the worktree.
WT="$1"; P="$2"; shift; shift
cd /verif
git -C "$WT" checkout -q -- . ; git -C "$WT" apply "$P" || { echo "PATCH-DOES-NOT-APPLY"; exit 3; }
OUT=$(mktemp /tmp/try_seed.XXXXXX)
WSX_WAITRESS_SRC="$WT/src/waitress" ./check "$@" > "$OUT" 2>&1; rc=$?
git -C "$WT" checkout -q -- .
echo "exit=$rc"; grep -E "^VIOLATION|what:|^PASS|^INCONCLUSIVE|^  - " "$OUT" | head -${SEED_LINES:-6} | cut -c1-240; rm -f "$OUT"
