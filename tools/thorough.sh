#!/bin/sh
# runs inside a snapshot of /verif
for p in "$@"; do echo "=== $p"; s=$(date +%s); ./check $p --tier thorough 2>&1 | grep -E "thorough:|PASS|VIOL|INCON|  - " | cut -c1-250; echo "wall=$(( $(date +%s) - s ))s"; done
