#!/bin/sh
# Offline setup: overlay venv on top of /venv (python 3.12 + repo deps) with z3-solver from the wheelhouse.
set -e
cd "$(dirname "$0")"
if [ ! -x .venv/bin/python ] || ! .venv/bin/python -c "import z3" 2>/dev/null; then
  rm -rf .venv
  /venv/bin/python -m venv .venv
  echo "import site; site.addsitedir('/venv/lib/python3.12/site-packages')" > .venv/lib/python3.12/site-packages/_base.pth
  PIP_NO_INDEX=1 .venv/bin/pip install -q --no-index --find-links /opt/veriftools/wheels z3-solver
fi
.venv/bin/python -c "import z3; print('z3', z3.get_version_string())"
