"""H-seq: the sequential connection pipeline used by several properties.

Real HTTPChannel (received / service / write_soon / _flush_some / handle_close), real parser,
receivers, tasks and buffers of the namespace given (instrumented, plain or pristine), on a
simulated socket, with a synchronous dispatcher and a recording WSGI application."""
from wsx import env
from wsx.containers import SymDict, enable_symdict_displays
from wsx.core import active
from wsx.data import SymSeq, SymBytes, lift


def namespaces():
    return env.prepare()


def real_namespace():
    return env.real_namespace()


def make_adj(ns, **kw):
    adj = ns.adjustments.Adjustments.__new__(ns.adjustments.Adjustments)
    # plain attribute object with the class defaults; Adjustments.__init__ resolves listen sockets
    # (getaddrinfo), which is the subject of C20, not of the connection pipeline
    adj.trusted_proxy_count = 1
    adj.trusted_proxy_headers = set()
    for k, v in kw.items():
        setattr(adj, k, v)
    return adj


class RecordingApp:
    """WSGI app: records the request as seen through environ, answers 200 with a fixed body"""

    def __init__(self, body=b"OK", read_body=True):
        self.calls = []
        self.body = body
        self.read_body = read_body

    def __call__(self, environ, start_response):
        items = environ.items()
        hdrs = []
        for k, v in items:
            if isinstance(k, str):
                if k.startswith("HTTP_") or k in ("CONTENT_TYPE", "CONTENT_LENGTH"):
                    hdrs.append((k, v))
            else:  # symbolic key: produced from a header field name
                hdrs.append((k, v))
        body = environ["wsgi.input"].read() if self.read_body else b""
        self.calls.append(dict(method=environ["REQUEST_METHOD"], uri=environ["REQUEST_URI"],
                               proto=environ["SERVER_PROTOCOL"], headers=hdrs, body=body, environ=environ))
        start_response("200 OK", [("Content-Length", str(len(self.body))), ("Content-Type", "text/plain")])
        return [self.body]


def new_channel(ns, adj, app, sock=None, addr=("127.0.0.1", 50000), sym_headers=True):
    """-> (channel, server, socket)"""
    sock = sock or env.SimSocket()
    srv = env.SeqServer(adj, app)
    symbolic = active() and ns.__dict__.get("_is_instrumented", False)

    class Chan(ns.channel.HTTPChannel):
        pass

    if symbolic and sym_headers:
        class Parser(ns.parser.HTTPRequestParser):
            def __init__(self, a):
                super().__init__(a)
                self.headers = SymDict()
        Chan.parser_class = Parser
    ch = Chan(srv, sock, addr, adj, map={})
    return ch, srv, sock


def parse_responses(wire, nmax=20):
    """split the bytes sent by the server into responses: list of (status_code, head_bytes, body_bytes);
    uses Content-Length (every response the sequential harnesses provoke carries one) or chunked.
    -> (responses, rest)"""
    out = []
    data = wire
    for _ in range(nmax):
        if len(data) == 0:
            break
        p = data.find(b"\r\n\r\n")
        if p < 0:
            break
        head = data[:p]
        rest = data[p + 4:]
        line_end = head.find(b"\r\n")
        status_line = head if line_end < 0 else head[:line_end]
        code = _to_int(status_line[9:12])
        cl = None
        chunked = False
        if line_end >= 0:
            for ln in head[line_end + 2:].split(b"\r\n"):
                low = ln.lower()
                if low.startswith(b"content-length:"):
                    cl = _to_int(ln[15:].strip())
                elif low.startswith(b"transfer-encoding:") and b"chunked" in low:
                    chunked = True
        if code is not None and (100 <= code < 200 or code in (204, 304)):
            body = b""
        elif cl is not None:
            body = rest[:cl]
            rest = rest[cl:]
        elif chunked:
            body = b""
            while True:
                q = rest.find(b"\r\n")
                if q < 0:
                    break
                sz = int(bytes(rest[:q]), 16)
                rest = rest[q + 2:]
                if sz == 0:
                    rest = rest[2:]
                    break
                body = body + rest[:sz]
                rest = rest[sz + 2:]
        else:
            body = rest
            rest = b""
        out.append((code, head, body))
        data = rest
    return out, data


def _to_int(b):
    if isinstance(b, SymSeq):
        if not b.concrete():
            return None
        b = b.simplify()
    try:
        return int(bytes(b))
    except ValueError:
        return None


def closing(ch):
    return bool(ch.will_close or ch.close_when_flushed or not ch.connected)


def drive(ns, adj, app, pieces, service="end", sock=None, sym_headers=True):
    """feed `pieces` (list of byte strings) to a fresh channel; run queued tasks after every piece
    (service="each") or after the last piece (service="end").
    -> dict(wire, calls, closing, pending, sock, ch, exc)"""
    ch, srv, sock = new_channel(ns, adj, app, sock, sym_headers=sym_headers)
    exc = None
    try:
        for p in pieces:
            if len(p) == 0:
                continue
            ch.received(p)
            if service == "each":
                srv.task_dispatcher.run_all()
        srv.task_dispatcher.run_all()
        # let the I/O side finish: flush what is pending, honour close_when_flushed / will_close
        for _ in range(4):
            if ch.connected and ch.writable():
                ch.handle_write()
    except Exception as e:  # noqa: an escaping exception is an observation (C06)
        if isinstance(e, (RecursionError, MemoryError)):
            from wsx.core import Unsupported
            raise Unsupported("engine resource error: %r" % e)
        exc = "%s: %s" % (type(e).__name__, e if not any(isinstance(a, SymSeq) for a in e.args) else "<sym>")
    return dict(wire=sock.wire(), calls=getattr(app, "calls", []), closing=closing(ch), closed=sock.closed,
                pending=ch.request is not None, queued=len(ch.requests), sock=sock, ch=ch, exc=exc)


class ListenSock:
    """listening socket stand-in for constructing a real TcpWSGIServer (never accepts)"""

    def __init__(self, fd=3):
        self.fd = fd
        self.closed = 0
        self.family = 2
        self.type = 1
        self.proto = 0

    def setblocking(self, f): pass
    def fileno(self): return self.fd
    def getsockopt(self, *a): return 0
    def setsockopt(self, *a): pass
    def bind(self, a): pass
    def listen(self, n): pass
    def getsockname(self): return ("127.0.0.1", 8080)
    def accept(self): raise BlockingIOError(11, "EAGAIN")
    def close(self): self.closed += 1


def real_server(ns, adj, app):
    """a real TcpWSGIServer (real __init__: proxy middleware wrapping, trigger, map) with a synchronous dispatcher"""
    disp = env.SeqDispatcher()
    srv = ns.server.TcpWSGIServer(app, map={}, _start=False, _sock=ListenSock(), dispatcher=disp, adj=adj, sockinfo=(2, 1, 0, ("127.0.0.1", 8080)))
    srv.pull_trigger = lambda: None  # the I/O loop is not running in the sequential harness
    return srv


def drive_real(ns, adj, app, pieces, addr=("127.0.0.1", 50000), sym_headers=True):
    srv = real_server(ns, adj, app)
    try:
        sock = env.SimSocket(fd=9)
        symbolic = active() and ns.__dict__.get("_is_instrumented", False)

        class Chan(ns.channel.HTTPChannel):
            pass

        if symbolic and sym_headers:
            class Parser(ns.parser.HTTPRequestParser):
                def __init__(self, a):
                    super().__init__(a)
                    self.headers = SymDict()
            Chan.parser_class = Parser
        ch = Chan(srv, sock, addr, adj, map=srv._map)
        exc = None
        try:
            for p in pieces:
                ch.received(p)
                srv.task_dispatcher.run_all()
            for _ in range(3):
                if ch.connected and ch.writable():
                    ch.handle_write()
        except Exception as e:  # noqa
            if isinstance(e, (RecursionError, MemoryError)):
                from wsx.core import Unsupported
                raise Unsupported("engine resource error: %r" % e)
            exc = type(e).__name__
        return dict(wire=sock.wire(), closing=closing(ch), exc=exc)
    finally:
        srv.close()


def shard(js, label, n, when=lambda j: True):
    """split every job selected by `when` into n jobs, each with the labelled choice pinned to one value: the same decision tree, spread over
    more worker processes (the union of the shards is the original job)"""
    out = []
    for j in js:
        if when(j):
            for v in range(n):
                f = dict(j.get("force") or {})
                f[label] = v
                out.append(dict(j, name="%s:%s=%d" % (j["name"], label, v), force=f))
        else:
            out.append(j)
    return out
