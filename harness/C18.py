"""C18 Connection limit holds; idle connections are reaped, busy ones never."""
from harness import common, hsys, C04
from wsx import env, sched
from wsx.core import E, PathAbort, SymInt, s_and

PROPERTY = "C18"
BUDGET = {"quick": 900, "thorough": 3000}
namespaces = hsys.namespaces
HEAVY_FIRST = ("request:tick", "partial:tick", "tick:request", ":tick:tick")
real_namespace = common.real_namespace
GOALS = ["connection refused at the limit and accepted after a close", "idle connection reaped", "busy connection survived beyond channel_timeout",
         "maintenance pass skipped inside cleanup_interval", "connection with a partial request reaped"]
ASSUMPTIONS = [
    "histories are driven between quiescent states of the threaded system; a clock event advances the simulated clock by a symbolic delta and lets the "
    "I/O loop turn twice (two expired poll timeouts = loop periods)",
    "channel_timeout in [1,300], cleanup_interval in [1,120] and every clock step in [0,600] are symbolic integers; connection_limit 3 or 4 "
    "(listener + wake-up pipe + 1..2 clients); one listening socket",
    "clients keep reading (an idle connection whose peer stalled with output pending is the recorded finding D10)",
]
STUBS = C04.STUBS + ["the application blocks until the history says it finishes"]
EVENTS = ("connect", "request", "partial", "finish", "tick")


def BOUNDS(tier):
    return ("event histories of length <= %d over %r; symbolic channel_timeout, cleanup_interval, clock steps; connection_limit in {3,4}; channel_request_lookahead in {0,1}; "
            "schedules without pre-emption (the property is about histories; interleavings are C04/C05/C11).  The history connect, tick, request, finish is %s."
            % (4 if tier == "quick" else 5, EVENTS, "left to the thorough tier (cost)" if tier == "quick" else "explored with length 4 only (cost); five events only for histories whose second event is a request or a partial request"))


def jobs(tier):
    n = 4 if tier == "quick" else 5
    js = []
    for limit in (3, 4):
        for second in EVENTS:
            for third in EVENTS:
                # five events only behind a request or a partial request (busy / half-received connections over longer histories): a five-event
                # history costs ~220 solver queries per schedule, the full set is beyond the thorough budget
                nn = n if second in ("request", "partial") else 4
                js.append(dict(name="L%d:connect:%s:%s" % (limit, second, third), limit=limit, prefix=["connect", second, third], n=nn))
    from wsx import runner
    # the stalled-peer history is the recorded finding D10; it is searched only while it is not recorded
    if "D10-idle-connection-with-stalled-peer-not-reaped" not in [k["id"] for k in runner.load_known("C18") if k.get("kind") == "known"]:
        js.append(dict(name="D10:stalled-peer", limit=4, prefix=["connect", "request"], n=2, stalled=True))
    heavy = lambda j: j.get("prefix", [])[1:] == ["tick", "request"]
    js = common.shard(js, "lookahead", 2, heavy)
    js = common.shard(js, "ev0", len(EVENTS), heavy)
    # connect, tick, request, finish: ~2500 schedules x ~75 solver queries each (5 min per job): thorough tier only, and not extended by a fifth event
    fin = lambda j: heavy(j) and j.get("force", {}).get("ev0") == EVENTS.index("finish")
    js = [dict(j, n=4) if fin(j) else j for j in js if not (tier == "quick" and fin(j))]
    js = common.shard(js, "ev0", len(EVENTS), lambda j: j.get("n") == 5)
    js = common.shard(js, "ev1", len(EVENTS), lambda j: j.get("n") == 5)
    return js


def make_inputs(job):
    eng = E()
    hist = list(job["prefix"])
    extra = eng.choose(job["n"] - len(hist) + 1, "len")
    for i in range(extra):
        hist.append(EVENTS[eng.choose(len(EVENTS), "ev%d" % i)])
    if job.get("stalled"):
        hist = ["connect", "request", "stall", "finish", "tick", "tick"]
    T = eng.fresh_int("channel_timeout", 1, 300)
    I = eng.fresh_int("cleanup_interval", 1, 120)
    deltas = [eng.fresh_int("delta%d" % i, 0, 600) for i, e in enumerate(hist) if e == "tick"]
    from wsx import runner
    return dict(hist=hist, limit=job["limit"], T=T, I=I, deltas=deltas, stalled=bool(job.get("stalled")), lookahead=eng.choose(2, "lookahead"))


def scenario(ns, inp):
    released = {}
    calls = []

    def app(environ, start_response):
        p = environ["PATH_INFO"]
        calls.append(p)
        sched.block_until(lambda: released.get(p, False), "app.blocked")
        start_response("200 OK", [("Content-Length", "2")])
        return [b"ok"]

    sysm = hsys.System(ns, app, adj_kw=dict(threads=2, connection_limit=inp["limit"], channel_timeout=inp["T"], cleanup_interval=inp["I"],
                                   channel_request_lookahead=inp.get("lookahead", 0)), P=0,
                       yield_funcs=set())
    t0 = 1700000000
    env.CLOCK.now = t0
    log = []
    conns = []  # dict(conn, last, busy, req)
    viol = []
    deltas = list(inp["deltas"])
    try:
        sysm.run()
        now = t0
        for ev in inp["hist"]:
            if ev == "connect":
                c = sysm.connect([], addr=("10.0.0.%d" % (len(conns) + 1), 5000))
                conns.append(dict(c=c, last=None, busy=False, req=None, partial=False, accepted_at=None, id=len(conns)))
            elif ev in ("request", "partial"):
                cand = [d for d in conns if not d["busy"] and not d["partial"] and d["c"].closed == 0 and d["accepted_at"] is not None]
                if not cand:
                    continue
                d = cand[-1]
                path = "/c%d" % d["id"]
                if ev == "request":
                    released[path] = False  # a later request on the same connection blocks again until its own "finish"
                    d["c"].inbox.append(b"GET %s HTTP/1.1\r\n\r\n" % path.encode())
                    d["busy"] = True
                    d["req"] = path
                else:
                    d["c"].inbox.append(b"GET %s HTTP/1.1\r\nX-Par" % path.encode())
                    d["partial"] = True
                d["last"] = now
            elif ev == "finish":
                cand = [d for d in conns if d["busy"]]
                if not cand:
                    continue
                d = cand[0]
                released[d["req"]] = True
                d["busy"] = False
                d["last"] = now
            elif ev == "stall":
                for d in conns:
                    d["c"].client_reading = False
            elif ev == "tick":
                now = now + deltas.pop(0)
                env.CLOCK.now = now
                sysm.sel.ticks += 1
                sysm.run()
                sysm.sel.ticks += 1
            sysm.run()
            # bookkeeping and invariants at the quiescent state
            nmap = len(sysm.map)
            for d in conns:
                if d["accepted_at"] is None and d["c"] not in [c for c, _ in sysm.listen.pending]:
                    d["accepted_at"] = now
                    d["last"] = now
            pending = len(sysm.listen.pending)
            log.append((ev, nmap, pending, [d["c"].closed for d in conns]))
            if nmap > inp["limit"]:
                viol.append("the I/O loop manages %d descriptors with connection_limit %d after %r" % (nmap, inp["limit"], ev))
            if pending and nmap < inp["limit"]:
                viol.append("a connection is left unaccepted although the loop is below the limit (%d < %d) after %r" % (nmap, inp["limit"], ev))
            for d in conns:
                if d["busy"] and d["c"].closed:
                    viol.append("connection %d was closed while its request is queued or executing (after %r)" % (d["id"], ev))
                if ev == "tick" and not d["busy"] and d["accepted_at"] is not None and not d["c"].closed:
                    idle = now - d["last"]
                    if bool(idle > inp["T"] + inp["I"]):
                        viol.append("connection %d idle for more than channel_timeout + cleanup_interval is still open after two loop turns" % d["id"])
        obs = dict(log=log, viol=viol, exc=list(sysm.s.thread_exceptions), live=sorted(sysm.s.live()), spinning=sysm.s.spinning, calls=calls,
                   reaped=[d["id"] for d in conns if d["c"].closed and not d["busy"]], partial_reaped=[d["id"] for d in conns if d["c"].closed and d["partial"]],
                   survived=[d["id"] for d in conns if d["busy"] and not d["c"].closed],
                   refused_then_accepted=any(l[2] > 0 for l in log) and len(sysm.listen.pending) == 0)
    finally:
        for k in list(released) + ["/c%d" % i for i in range(8)]:
            released[k] = True
        sysm.close()
    return obs


def oracle(inp, obs):
    out = [("no thread dies with an exception (%r)" % (obs["exc"],), not obs["exc"]),
           ("the I/O loop is alive and not busy-polling", "io" in obs["live"] and not obs["spinning"])]
    out.append(("limit, reaping and busy-protection hold at every quiescent state of the history: %s" % ("; ".join(obs["viol"]) or "ok"), not obs["viol"]))
    return out


def goals(cin, cobs):
    out = []
    if cobs["refused_then_accepted"]:
        out.append("connection refused at the limit and accepted after a close")
    if cobs["reaped"]:
        out.append("idle connection reaped")
    if cobs["partial_reaped"]:
        out.append("connection with a partial request reaped")
    if cobs["survived"] and any(d > cin["T"] for d in cin["deltas"]):
        out.append("busy connection survived beyond channel_timeout")
    if len(cin["deltas"]) >= 2 and cin["deltas"][1] < cin["I"]:
        out.append("maintenance pass skipped inside cleanup_interval")
    return out


def normalize(obs):
    return obs


def replay(rep, inputs):
    import harness.C18 as H
    return hsys.replay_with(H, inputs)
