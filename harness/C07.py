"""C07 The WSGI environ is the exact PEP 3333 image of the request."""
from harness import common, framing, streams
from refs import environ as refenv
from wsx.core import E, PathAbort, s_and, sym_equal, mkbool
from wsx.data import SymBytes, SymSeq, SymStr, lift

PROPERTY = "C07"
BUDGET = {"quick": 900, "thorough": 3000}
namespaces = common.namespaces
real_namespace = common.real_namespace
GOALS = ["body read back after the spill to a temporary file", "percent-escape decoded", "invalid escape left alone", "url_prefix split applied", "repeated field joined", "underscore name dropped",
         "chunked body with CONTENT_LENGTH", "cgi-looking header kept under HTTP_ prefix", "near-miss of url_prefix"]
ASSUMPTIONS = [
    "canonically well-formed requests: streams the RFC reference refuses, leaves incomplete or marks convention-dependent are skipped (they are C01/C06)",
    "targets in origin-form, absolute-form or '*'; other forms (authority-form, relative references) are outside the claim",
]
STUBS = ["as C01"]
SK = {
    "origin": b"GET /p/q/r%41%zz/%2f?x=%20y&z#frag HTTP/1.1\r\nHost: a\r\nX-Foo: 1\r\nX-Foo: 2\r\nX_Bar: u\r\nContent-Type: t/x\r\nAccept:  ob\xe9s  \r\n\r\n",
    "cgi": b"GET //p HTTP/1.0\r\nServer-Name: evil\r\nRemote-Addr: 6.6.6.6\r\nScript-Name: /s\r\nPath-Info: /x\r\nWsgi-Url-Scheme: https\r\nHttp-Host: h\r\nContent-Length: 0\r\n\r\n",
    "clbody": b"POST /p HTTP/1.1\r\nContent-Length: 5\r\nContent-Type: a/b\r\n\r\nhe\xffloGET / HTTP/1.1\r\n\r\n",
    "chunked": b"POST /p/q?a=b HTTP/1.1\r\n" + streams.CH + b"X-A: b\r\n\r\n2;e=f\r\nhe\r\n3\r\nllo\r\n0\r\nT: v\r\n\r\n",
    "absolute": b"GET http://h.example:80/p/q%20r?u=v#w HTTP/1.1\r\nHost: h.example\r\n\r\n",
    "asterisk": b"OPTIONS * HTTP/1.1\r\nHost: a\r\n\r\n",
    "noversion": b"GET /p/x?y\r\n\r\n",
}
PREFIXES = ("", "/p", "/p/q")


def BOUNDS(tier):
    return ("%d request skeletons (origin / absolute / asterisk targets, %%XX valid and invalid, repeated / underscore / CGI-looking field names, "
            "obs-text values, CL and chunked bodies, HTTP/1.0 and no version) with a %d-byte symbolic window substituted and inserted at every "
            "position; url_prefix in %r, url_scheme http/https, TCP and unix peer; the key-by-key comparison covers every header-derived key "
            "and the 13 request/server variables.  BIG: Content-Length and chunked bodies of 8100..20290 bytes (symbolic first / last byte of each of "
            "three parts, concrete filler) arriving in three reads, with inbuf_overflow in {8300, 9000, 20000%s}: the body crosses the string, BytesIO "
            "and temporary-file stages at different reads; wsgi.input and CONTENT_LENGTH as above."
            % (len(SK), 1 if tier == "quick" else 2, PREFIXES, "" if tier == "quick" else ", 524288"))


def jobs(tier):
    js = []
    w = 1
    for nm, sk in SK.items():
        for mode in ("subst", "insert"):
            pos = streams.window_positions(sk, w, mode)
            for i in range(0, len(pos), 6):
                js.append(dict(name="F1:%s:%s:w%d:%d" % (nm, mode, w, pos[i]), sk=nm, mode=mode, w=w, positions=pos[i:i + 6]))
    # BIG: bodies that cross the string -> BytesIO -> temporary-file stages of the request-body buffer while they arrive in three reads
    for kind in ("cl", "chunked"):
        for ov in (8300, 9000, 20000) + ((524288,) if tier == "thorough" else ()):
            js.append(dict(name="BIG:%s:ov%d" % (kind, ov), fam="BIG", kind=kind, overflow=ov))
    if tier == "thorough":
        w = 2
        for nm in ("origin", "cgi", "chunked", "absolute"):
            sk = SK[nm]
            pos = streams.window_positions(sk, w, "subst")
            for i in range(0, len(pos), 3):
                js.append(dict(name="F1:%s:subst:w2:%d" % (nm, pos[i]), sk=nm, mode="subst", w=w, positions=pos[i:i + 3]))
    return js


def _filler(n, off):
    return bytes(((i + off) * 7 + 3) % 251 for i in range(n))


def _big_inputs(job, eng):
    s1 = (8100, 8250)[eng.choose(2, "s1")]
    s2 = (60, 900, 12000)[eng.choose(3, "s2")]
    s3 = (0, 40)[eng.choose(2, "s3")]
    parts = []
    off = 0
    for k, n in enumerate((s1, s2, s3)):
        if n:
            # symbolic first and last byte of every part, concrete filler in between
            body = SymBytes.fresh(1, "b%da" % k) + _filler(n - 2, off) + SymBytes.fresh(1, "b%dz" % k) if n >= 2 else SymBytes.fresh(n, "b%d" % k)
        else:
            body = b""
        parts.append(body)
        off += n
    total = s1 + s2 + s3
    if job["kind"] == "cl":
        head = b"POST /p HTTP/1.1\r\nContent-Length: %d\r\n\r\n" % total
        segs = [head + parts[0], parts[1], parts[2]]
    else:
        head = b"POST /p HTTP/1.1\r\n" + streams.CH + b"\r\n"
        enc = [(b"%x\r\n" % len(p)) + p + b"\r\n" if len(p) else b"" for p in parts]
        segs = [head + enc[0], enc[1], enc[2] + b"0\r\n\r\n"]
    stream = segs[0] + segs[1] + segs[2]
    cuts = [len(segs[0]), len(segs[0]) + len(segs[1])]
    return dict(stream=stream, cuts=cuts, inbuf_overflow=job["overflow"], url_prefix="", url_scheme="http", unix=False)


def make_inputs(job):
    eng = E()
    if job.get("fam") == "BIG":
        return _big_inputs(job, eng)
    sk = SK[job["sk"]]
    positions = job["positions"]
    pos = positions[eng.choose(len(positions), "pos")]
    stream = streams.place_window(sk, job["w"], job["mode"], pos)
    ci = eng.choose(len(PREFIXES), "prefix")
    unixpeer = bool(eng.choose(2, "peer"))
    return dict(stream=stream, url_prefix=PREFIXES[ci], url_scheme=("http", "https")[ci % 2], unix=unixpeer)


def _cfg(inp):
    return dict(url_prefix=inp["url_prefix"], url_scheme=inp["url_scheme"], server_name="srv.example", server_port=8080,
                peer=("localhost", None) if inp["unix"] else ("192.0.2.7", 4711), ident="waitress")


def scenario(ns, inp):
    cfg = _cfg(inp)
    kw = dict(inbuf_overflow=inp["inbuf_overflow"]) if "inbuf_overflow" in inp else {}
    adj = common.make_adj(ns, url_prefix=cfg["url_prefix"], url_scheme=cfg["url_scheme"], server_name=cfg["server_name"], **kw)
    app = common.RecordingApp()
    ch, srv, sock = common.new_channel(ns, adj, app, addr=cfg["peer"])
    srv.server_name = cfg["server_name"]
    exc = None
    try:
        last = 0
        for c in list(inp.get("cuts", ())) + [len(inp["stream"])]:
            if c > last:
                ch.received(inp["stream"][last:c])
            last = c
        srv.task_dispatcher.run_all()
    except Exception as e:  # noqa
        exc = type(e).__name__
    envs = []
    for c in app.calls:
        env = c["environ"]
        items = [(k, v) for k, v in env.items() if not (isinstance(k, str) and (k.startswith("wsgi.") and k != "wsgi.url_scheme" or k == "waitress.client_disconnected"))]
        envs.append(dict(items=items, body=c["body"]))
    return dict(envs=envs, exc=exc)


def _latin1_text(v):
    if isinstance(v, str):
        return all(ord(ch) < 256 for ch in v)
    if isinstance(v, SymStr):
        import z3
        return s_and(*[mkbool(z3.ULE(c, 0xFF)) if not isinstance(c, int) else c < 256 for c in v.c])
    return False


def oracle(inp, obs):
    ref = framing.reference(inp["stream"], strict_target_ctl=True)
    out = [("no exception", obs["exc"] is None)]
    cfg = _cfg(inp)
    i = 0
    for ev in ref:
        if ev[0] != "req":
            break
        if i >= len(obs["envs"]):
            out.append(("request %d reaches the application" % i, False))
            break
        exp = refenv.expected_environ(ev, cfg)
        if exp is None:
            break
        base, hdr = exp
        got = obs["envs"][i]
        items = got["items"]
        keys = [k for k, _ in items]

        def lookup(key):
            for k, v in items:
                if bool(sym_equal(k, key)):
                    return v
            return None
        for key, val in base:
            out.append(("request %d: %s is the image of the request line / configuration" % (i, key), sym_equal(lookup(key), val)))
        for key, val in hdr:
            out.append(("request %d: header field %s appears once under its CGI name with the joined value" % (i, key if isinstance(key, str) else "<sym>"),
                        sym_equal(lookup(key), val)))
        out.append(("request %d: the environ has exactly one key per field plus the server's variables (no extra, none missing)" % i,
                    len(items) == len(base) + len(hdr)))
        out.append(("request %d: every key and value is a latin-1 native string" % i,
                    s_and(*[s_and(_latin1_text(k), _latin1_text(v)) for k, v in items])))
        out.append(("request %d: wsgi.input yields exactly the framed body" % i, sym_equal(got["body"], ev[5])))
        cl = lookup("CONTENT_LENGTH")
        if len(ev[5]):
            from wsx.sxbuiltins import sx_int
            try:
                ok = cl is not None and sx_int(cl) == len(ev[5])
            except ValueError:
                ok = False
            out.append(("request %d: CONTENT_LENGTH equals the length of the body wsgi.input yields" % i, ok))
        i += 1
        if ev[6] is not False:
            break
    return out


def normalize(obs):
    def n(x):
        if isinstance(x, dict):
            return tuple((k, n(v)) for k, v in sorted(x.items()))
        if isinstance(x, (list, tuple)):
            return tuple(n(y) for y in x)
        if isinstance(x, bytearray):
            return bytes(x)
        return x
    return n(obs)


def goals(cin, cobs):
    out = []
    s = cin["stream"]
    if "inbuf_overflow" in cin:
        if cobs["envs"] and len(cobs["envs"][0]["body"]) >= cin["inbuf_overflow"]:
            out.append("body read back after the spill to a temporary file")
        return out
    for e in cobs["envs"]:
        d = dict(e["items"])
        if "%41" in d.get("REQUEST_URI", "") and "A" in d.get("PATH_INFO", ""):
            out.append("percent-escape decoded")
        if "%zz" in d.get("PATH_INFO", ""):
            out.append("invalid escape left alone")
        if cin["url_prefix"] and d.get("SCRIPT_NAME") == cin["url_prefix"] and not d.get("PATH_INFO", "").startswith(cin["url_prefix"]):
            out.append("url_prefix split applied")
        if cin["url_prefix"] and d.get("PATH_INFO", "").startswith(cin["url_prefix"]):
            out.append("near-miss of url_prefix")
        if d.get("HTTP_X_FOO") == "1, 2":
            out.append("repeated field joined")
        if b"X_Bar" in s and "HTTP_X_BAR" not in d:
            out.append("underscore name dropped")
        if b"chunked" in s and d.get("CONTENT_LENGTH") == "5":
            out.append("chunked body with CONTENT_LENGTH")
        if "HTTP_SERVER_NAME" in d and d.get("SERVER_NAME") == "srv.example":
            out.append("cgi-looking header kept under HTTP_ prefix")
    return out
