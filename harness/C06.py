"""C06 Oversize and malformed input is refused totally: error response, close, no crash."""
import time

from harness import common, framing, streams, rxambig
from wsx.core import E, PathAbort
from wsx.data import SymBytes

PROPERTY = "C06"
BUDGET = {"quick": 900, "thorough": 3000}
namespaces = common.namespaces
real_namespace = common.real_namespace
OPAQUE_INTS = True
GOALS = ["patterns analysed for ambiguous repetition", "refused 431", "refused 413", "refused 400", "refused 501", "oversize head without terminator refused",
         "chunked body refused at the limit", "request below both limits delivered", "closing connection probed"]
ASSUMPTIONS = [
    "limits are symbolic integers: max_request_header_size in [1, 4096], max_request_body_size in [1, 4096] (digit-run family: defaults)",
    "numbers rendered into error-message bodies are replaced by a placeholder (formatting is not the subject); bodies are not compared",
    "where the property fixes no accounting convention (leading blank lines, framing vs data bytes of a chunked body) either verdict is accepted",
]
STUBS = ["as C01", "AMBIG: z3 regular-expression theory over the sre parse tree of the real pattern objects (wsx/rx.py)"]
LIM = 4096


def BOUNDS(tier):
    return ("symbolic limits x { 1-byte window at every position of %d skeletons; unterminated heads of 1..40 bytes with a 1-byte window; "
            "all byte strings of length <= %d in each chunked-decoder phase; Content-Length / chunk-size digit runs of lengths "
            "1, 19, 20, 4299, 4300, 4301, 5000 (thorough: also 70000) with symbolic first and last digit }, each also with one symbolic cut (two reads).  "
            "AMBIG (no length bound): every repeat with an unbounded or >= 8 upper count over a group, in every compiled pattern of rfc7230 / parser / "
            "receiver / utilities / proxy_headers / task: no text is one iteration and also several (L(R) & L(R R+) empty) and no two branches of an "
            "alternation below it match the same text; polynomial blow-ups are outside this check." % (len(SKEL), 4 if tier == "quick" else 6))


SKEL = ("get11", "pct", "expect", "cl_pipe", "chunk1", "chunk_ext_tr", "cl_te", "obsfold", "lead_crlf", "pipe3")
RUNS = (1, 19, 20, 4299, 4300, 4301, 5000, 70000)


def jobs(tier):
    js = []
    for j in streams.f1_jobs(SKEL, 1, per_job=6):
        j["limits"] = "sym"
        js.append(j)
    for j in streams.f1_jobs(("cl", "chunk1") if tier == "quick" else ("cl_pipe", "chunk_ext_tr"), 1, per_job=2):
        j["limits"] = "sym"
        j["cut"] = True
        j["name"] += ":cut"
        js.append(j)
    for n in (1, 2, 3, 5, 8, 13, 21, 40):
        js.append(dict(name="HEAD:n%d" % n, family="HEAD", n=n, limits="sym"))
    for j in streams.f2_jobs(4 if tier == "quick" else 6, phases=("chunked_body", "in_chunk", "chunk_term", "trailer")):
        j["limits"] = "sym"
        js.append(j)
    for k in RUNS:
        if k > 5000 and tier == "quick":
            continue
        for kind in ("cl", "chunksize"):
            js.append(dict(name="RUN:%s:%d" % (kind, k), family="RUN", kind=kind, k=k, limits="default"))
    if tier == "thorough":
        for j in streams.f1_jobs(("get11", "cl_pipe", "chunk1", "pct"), 2, per_job=3):
            j["limits"] = "sym"
            js.append(j)
    js.append(dict(name="AMBIG:patterns", custom=True, family="AMBIG"))
    return js


def run_custom(job, tier, deadline, known_ids):
    """'never hang': no repeated group of a pattern used on the request path can match the same text in two ways (see harness/rxambig.py)"""
    from wsx.runner import enc
    W, P = namespaces()
    res = dict(stats=dict(paths=0, aborted=0, decisions=0, forks=0, solver_calls=0, solver_time=0.0, unknown=0), violations=[],
               unsupported=[], goals={}, samples=[], concolic=0, mismatches=[], extra={})
    seen = set()
    analysed = []
    for (mod, var), pat in rxambig.patterns(W).items():
        if id(pat) in seen:
            continue
        seen.add(id(pat))
        t = time.time()
        try:
            nq, finds, unknown = rxambig.analyse(pat)
        except Exception as e:  # noqa
            res["unsupported"].append("pattern %s.%s cannot be translated: %r" % (mod, var, e))
            continue
        res["stats"]["solver_calls"] += nq
        res["stats"]["solver_time"] += time.time() - t
        res["stats"]["paths"] += 1
        res["stats"]["decisions"] += nq
        analysed.append("%s.%s (%d queries)" % (mod, var, nq))
        for u in unknown:
            res["stats"]["unknown"] += 1
            res["unsupported"].append("z3 unknown on %s.%s %s" % (mod, var, u))
        for f in finds:
            res["violations"].append(dict(
                label="pattern %s.%s: a repeated group matches %r in more than one way (%s, %s): exponential backtracking" % (
                    mod, var, f["witness"], f["kind"], f["where"]),
                inputs=enc(dict(kind="AMBIG", mod=mod, var=var, witness=f["witness"], lead=f["lead"], which=f["kind"])), detail=repr(f["witness"])))
    if analysed:
        res["goals"]["patterns analysed for ambiguous repetition"] = 1
    res["samples"].append(dict(job=job["name"], inputs=dict(kind="AMBIG", patterns=analysed), observation="no ambiguous repeated group"))
    res["nviol"] = len(res["violations"])
    return res


def make_inputs(job):
    eng = E()
    fam = job["family"]
    if fam in ("F1", "F2"):
        stream = streams.make_stream(job)
    elif fam == "HEAD":
        n = job["n"]
        base = (b"GET /aaaaaaaaaaaaaaaaaaaaaaaaaaaaaaaaaaaaaaaaaaaaaaaa")[:n]
        k = eng.choose(n, "pos")
        stream = base[:k] + SymBytes.fresh(1, "w") + base[k + 1:]
    else:
        k = job["k"]
        a = SymBytes.fresh(1, "d")
        b = SymBytes.fresh(1, "e")
        if job["kind"] == "cl":
            mid = b"7" * max(0, k - 2)
            num = (a + mid + b) if k >= 2 else a
            stream = b"POST / HTTP/1.1\r\nContent-Length: " + num + b"\r\n\r\nabc"
        else:
            mid = b"0" * max(0, k - 2)
            num = (a + mid + b) if k >= 2 else a
            stream = b"POST / HTTP/1.1\r\n" + streams.CH + b"\r\n" + num + b"\r\nabc\r\n0\r\n\r\n"
    inp = {"stream": stream}
    if job["limits"] == "sym":
        inp["max_header"] = eng.fresh_int("max_header", 1, LIM)
        inp["max_body"] = eng.fresh_int("max_body", 1, LIM)
    else:
        inp["max_header"] = 262144
        inp["max_body"] = 1073741824
    if job.get("cut"):
        n = len(stream)
        inp["cut"] = 1 + eng.choose(n - 1, "cut")
    else:
        inp["cut"] = 0
    return inp


def scenario(ns, inputs):
    if inputs.get("kind") == "AMBIG":
        pat = getattr(getattr(ns, inputs["mod"]), inputs["var"])
        pat = getattr(pat, "real", pat)
        return dict(times=rxambig.measure(pat, inputs["lead"], inputs["witness"]))
    s = inputs["stream"]
    pieces = [s] if not inputs["cut"] else [s[:inputs["cut"]], s[inputs["cut"]:]]
    return framing.impl_events(ns, pieces, adj_kw=dict(max_request_header_size=inputs["max_header"], max_request_body_size=inputs["max_body"]),
                               service="each", probe=True)


def oracle(inputs, obs):
    if inputs.get("kind") == "AMBIG":
        return [("matching %s.%s on lead + %r * k + NUL does not take geometrically growing time (measured %s)" % (
            inputs["mod"], inputs["var"], inputs["witness"], [(k, round(t, 4)) for k, t in obs["times"]][-4:]), not rxambig.geometric(obs["times"]))]
    ref = framing.reference(inputs["stream"], max_header=inputs["max_header"], max_body=inputs["max_body"], strict_target_ctl=True)
    return framing.compare(obs, ref) + framing.compare_refusal(obs)


def normalize(obs):
    return "times" if "times" in obs else framing.norm_obs(obs)


def goals(cin, cobs):
    out = []
    if "times" in cobs:
        return out
    ev = cobs["events"]
    for e in ev:
        if e[0] == "err":
            out.append("refused %d" % e[1])
            if e[1] == 431 and b"\r\n\r\n" not in cin["stream"]:
                out.append("oversize head without terminator refused")
            if e[1] == 413 and b"chunked" in cin["stream"].lower():
                out.append("chunked body refused at the limit")
    if ev and all(e[0] == "req" for e in ev):
        out.append("request below both limits delivered")
    if cobs["probe"] is not None and cobs["closing"]:
        out.append("closing connection probed")
    return out
