"""C06 Oversize and malformed input is refused totally: error response, close, no crash."""
from harness import common, framing, streams
from wsx.core import E, PathAbort
from wsx.data import SymBytes

PROPERTY = "C06"
BUDGET = {"quick": 900, "thorough": 3000}
namespaces = common.namespaces
real_namespace = common.real_namespace
OPAQUE_INTS = True
GOALS = ["refused 431", "refused 413", "refused 400", "refused 501", "oversize head without terminator refused",
         "chunked body refused at the limit", "request below both limits delivered", "closing connection probed"]
ASSUMPTIONS = [
    "limits are symbolic integers: max_request_header_size in [1, 4096], max_request_body_size in [1, 4096] (digit-run family: defaults)",
    "numbers rendered into error-message bodies are replaced by a placeholder (formatting is not the subject); bodies are not compared",
    "where the property fixes no accounting convention (leading blank lines, framing vs data bytes of a chunked body) either verdict is accepted",
]
STUBS = ["as C01"]
LIM = 4096


def BOUNDS(tier):
    return ("symbolic limits x { 1-byte window at every position of %d skeletons; unterminated heads of 1..40 bytes with a 1-byte window; "
            "all byte strings of length <= %d in each chunked-decoder phase; Content-Length / chunk-size digit runs of lengths "
            "1, 19, 20, 4299, 4300, 4301, 5000 (thorough: also 70000) with symbolic first and last digit }, each also with one symbolic cut (two reads)."
            % (len(SKEL), 4 if tier == "quick" else 6))


SKEL = ("get11", "pct", "expect", "cl_pipe", "chunk1", "chunk_ext_tr", "cl_te", "obsfold", "lead_crlf", "pipe3")
RUNS = (1, 19, 20, 4299, 4300, 4301, 5000, 70000)


def jobs(tier):
    js = []
    for j in streams.f1_jobs(SKEL, 1, per_job=6):
        j["limits"] = "sym"
        js.append(j)
    for j in streams.f1_jobs(("cl", "chunk1") if tier == "quick" else ("cl_pipe", "chunk_ext_tr"), 1, per_job=2):
        j["limits"] = "sym"
        j["cut"] = True
        j["name"] += ":cut"
        js.append(j)
    for n in (1, 2, 3, 5, 8, 13, 21, 40):
        js.append(dict(name="HEAD:n%d" % n, family="HEAD", n=n, limits="sym"))
    for j in streams.f2_jobs(4 if tier == "quick" else 6, phases=("chunked_body", "in_chunk", "chunk_term", "trailer")):
        j["limits"] = "sym"
        js.append(j)
    for k in RUNS:
        if k > 5000 and tier == "quick":
            continue
        for kind in ("cl", "chunksize"):
            js.append(dict(name="RUN:%s:%d" % (kind, k), family="RUN", kind=kind, k=k, limits="default"))
    if tier == "thorough":
        for j in streams.f1_jobs(("get11", "cl_pipe", "chunk1", "pct"), 2, per_job=3):
            j["limits"] = "sym"
            js.append(j)
    return js


def make_inputs(job):
    eng = E()
    fam = job["family"]
    if fam in ("F1", "F2"):
        stream = streams.make_stream(job)
    elif fam == "HEAD":
        n = job["n"]
        base = (b"GET /aaaaaaaaaaaaaaaaaaaaaaaaaaaaaaaaaaaaaaaaaaaaaaaa")[:n]
        k = eng.choose(n, "pos")
        stream = base[:k] + SymBytes.fresh(1, "w") + base[k + 1:]
    else:
        k = job["k"]
        a = SymBytes.fresh(1, "d")
        b = SymBytes.fresh(1, "e")
        if job["kind"] == "cl":
            mid = b"7" * max(0, k - 2)
            num = (a + mid + b) if k >= 2 else a
            stream = b"POST / HTTP/1.1\r\nContent-Length: " + num + b"\r\n\r\nabc"
        else:
            mid = b"0" * max(0, k - 2)
            num = (a + mid + b) if k >= 2 else a
            stream = b"POST / HTTP/1.1\r\n" + streams.CH + b"\r\n" + num + b"\r\nabc\r\n0\r\n\r\n"
    inp = {"stream": stream}
    if job["limits"] == "sym":
        inp["max_header"] = eng.fresh_int("max_header", 1, LIM)
        inp["max_body"] = eng.fresh_int("max_body", 1, LIM)
    else:
        inp["max_header"] = 262144
        inp["max_body"] = 1073741824
    if job.get("cut"):
        n = len(stream)
        inp["cut"] = 1 + eng.choose(n - 1, "cut")
    else:
        inp["cut"] = 0
    return inp


def scenario(ns, inputs):
    s = inputs["stream"]
    pieces = [s] if not inputs["cut"] else [s[:inputs["cut"]], s[inputs["cut"]:]]
    return framing.impl_events(ns, pieces, adj_kw=dict(max_request_header_size=inputs["max_header"], max_request_body_size=inputs["max_body"]),
                               service="each", probe=True)


def oracle(inputs, obs):
    ref = framing.reference(inputs["stream"], max_header=inputs["max_header"], max_body=inputs["max_body"], strict_target_ctl=True)
    return framing.compare(obs, ref) + framing.compare_refusal(obs)


normalize = framing.norm_obs


def goals(cin, cobs):
    out = []
    ev = cobs["events"]
    for e in ev:
        if e[0] == "err":
            out.append("refused %d" % e[1])
            if e[1] == 431 and b"\r\n\r\n" not in cin["stream"]:
                out.append("oversize head without terminator refused")
            if e[1] == 413 and b"chunked" in cin["stream"].lower():
                out.append("chunked body refused at the limit")
    if ev and all(e[0] == "req" for e in ev):
        out.append("request below both limits delivered")
    if cobs["probe"] is not None and cobs["closing"]:
        out.append("closing connection probed")
    return out
