"""C16 Trusted proxy headers: only trusted kinds, only trusted hops, never a crash.

Unit: the real proxy_headers_middleware / parse_proxy_headers / undquote / strip_brackets /
clear_untrusted_headers, called the way BaseWSGIServer wraps the application, on an environ whose
proxy header values are symbolic strings."""
import z3

from harness import common
from wsx.core import E, PathAbort, s_and, s_or, sym_equal
from wsx.data import SymStr, SymSeq, lift

PROPERTY = "C16"
BUDGET = {"quick": 900, "thorough": 3000}
namespaces = common.namespaces
real_namespace = common.real_namespace
KINDS = {"x-forwarded-for": "HTTP_X_FORWARDED_FOR", "x-forwarded-host": "HTTP_X_FORWARDED_HOST",
         "x-forwarded-proto": "HTTP_X_FORWARDED_PROTO", "x-forwarded-port": "HTTP_X_FORWARDED_PORT",
         "x-forwarded-by": "HTTP_X_FORWARDED_BY", "forwarded": "HTTP_FORWARDED"}
META = ("REMOTE_ADDR", "REMOTE_HOST", "REMOTE_PORT", "SERVER_NAME", "SERVER_PORT", "HTTP_HOST", "wsgi.url_scheme")
PEER = "10.0.0.9"
GOALS = ["application called", "400 for a malformed header", "client address taken from a hop", "host rewritten", "scheme rewritten",
         "left hops dropped from the forwarded header"]
ASSUMPTIONS = [
    "symbolic header values range over the field-value alphabet that the header parser lets through (HTAB, SP, VCHAR, obs-text; no SP/HTAB "
    "at either end) - established by C10; the peer is the trusted proxy",
    "hop templates for the index rule: distinct tokens over [a-z0-9.] with a symbolic window restricted to that alphabet",
]
STUBS = ["loggers (captured)", "re patterns QUOTED_STRING_RE / QUOTED_PAIR_RE (backtracking model)", "the WSGI application (records environ)"]


def BOUNDS(tier):
    n = 5 if tier == "quick" else 7
    return ("TOT: each of the six proxy headers fully symbolic with length 0..%d, trusted, trusted_proxy_count in {1,2}: outcome is app-call or 400; "
            "KIND: for every single trusted kind (and 'forwarded'), every other kind present with a symbolic value of <= 3 characters vs absent: same "
            "metadata; HOP: hop lists 'X, T' with X symbolic (<= 3 characters, may contain commas) in front of 1..3 concrete hops, "
            "trusted_proxy_count 1..3 (for / host / forwarded): same environ as without X, or 400; IDX: 1..5 token hops with a 2-character window, "
            "trusted_proxy_count 1..4: address/host from exactly the count-th hop from the right (leftmost if fewer); HOP for Forwarded also with trusted "
            "hops that carry no host= / a proto=, and X as the value of a host= / proto= pair of the untrusted element; QS: values '\"' X '\"' (X symbolic, "
            "<= %d characters) for X-Forwarded-For/Host/Proto/Port and the for/host/proto/by values of Forwarded: refused unless X is *(qdtext / quoted-pair)."
            % (n, 4 if tier == "quick" else 5))


def jobs(tier):
    js = []
    nmax = 5 if tier == "quick" else 7
    for kind in KINDS:
        for n in range(0, nmax + 1):
            for count in (1, 2):
                if kind in ("x-forwarded-proto", "x-forwarded-port", "x-forwarded-by") and (count == 2 or n > 5):
                    continue
                js.append(dict(name="TOT:%s:n%d:c%d" % (kind, n, count), fam="TOT", kind=kind, n=n, count=count))
    for trusted in KINDS:
        for other in KINDS:
            if other == trusted:
                continue
            for n in (1, 2, 3):
                js.append(dict(name="KIND:%s:%s:n%d" % (trusted, other, n), fam="KIND", trusted=trusted, other=other, n=n))
    for kind in ("x-forwarded-for", "x-forwarded-host", "forwarded"):
        for count in (1, 2, 3):
            for nx in (1, 2, 3):
                js.append(dict(name="HOP:%s:c%d:x%d" % (kind, count, nx), fam="HOP", kind=kind, count=count, nx=nx))
    for kind in ("x-forwarded-for", "x-forwarded-host", "forwarded"):
        for k in range(1, 6):
            js.append(dict(name="IDX:%s:k%d" % (kind, k), fam="IDX", kind=kind, k=k))
    # QS: a value that claims to be a quoted-string ('"' X '"', X symbolic): anything that is not a quoted-string must be refused
    for kind in QS_TEMPLATES:
        for n in range(0, (4 if tier == "quick" else 5) + 1):
            js.append(dict(name="QS:%s:n%d" % (kind, n), fam="QS", kind=kind, n=n))
    return js


QS_TEMPLATES = {"x-forwarded-for": ("x-forwarded-for", ""), "x-forwarded-host": ("x-forwarded-host", ""), "x-forwarded-proto": ("x-forwarded-proto", ""),
                "x-forwarded-port": ("x-forwarded-port", ""), "forwarded-for": ("forwarded", "for="), "forwarded-host": ("forwarded", "host="),
                "forwarded-proto": ("forwarded", "proto="), "forwarded-by": ("forwarded", "for=a;by=")}


def _is_quoted_string_interior(x):
    """reference (RFC 9110 5.6.4): *( qdtext / quoted-pair ) over the field-value alphabet; decided per character (forks on symbolic cells)"""
    n = len(x)
    x = lift(x) if n else x
    i = 0
    while i < n:
        c = x[i:i + 1]
        if bool(c == chr(92)):
            if i + 1 >= n:
                return False  # the backslash would escape the closing quote
            i += 2
        elif bool(c == '"'):
            return False
        else:
            i += 1
    return True


def _field_value(eng, n, name):
    s = SymStr.fresh(n, name)
    for i, c in enumerate(s.c):
        ok = z3.And(z3.ULE(c, 0xFF), z3.Or(z3.UGE(c, 0x20), c == 9), c != 0x7F)
        if i == 0 or i == n - 1:
            ok = z3.And(ok, c != 0x20, c != 9)
        eng.assume(ok)
    return s.simplify() if n else ""


def _field_value_inner(eng, n, name):
    """interior of a field value: HTAB, SP, VCHAR, obs-text at every position"""
    s = SymStr.fresh(n, name)
    for c in s.c:
        eng.assume(z3.And(z3.ULE(c, 0xFF), z3.Or(z3.UGE(c, 0x20), c == 9), c != 0x7F))
    return s.simplify() if n else ""


def _token_char(eng, c):
    # lower-case only: the Forwarded header is lower-cased as a whole (hosts and addresses are case-insensitive)
    eng.assume(z3.Or(z3.And(z3.UGE(c, 48), z3.ULE(c, 57)), z3.And(z3.UGE(c, 97), z3.ULE(c, 122)), c == 46))


HOPS = ["h1.a", "h2.b", "h3.c", "h4.d", "h5.e"]


def make_inputs(job):
    eng = E()
    fam = job["fam"]
    if fam == "TOT":
        v = _field_value(eng, job["n"], "v")
        return dict(fam=fam, trusted=[job["kind"]], count=job["count"], headers={KINDS[job["kind"]]: v}, clear=True)
    if fam == "KIND":
        v = _field_value(eng, job["n"], "v")
        base = {"x-forwarded-for": "1.2.3.4", "x-forwarded-host": "example.com:8443", "x-forwarded-proto": "https", "x-forwarded-port": "444",
                "x-forwarded-by": "p", "forwarded": 'for=1.2.3.4;host=example.com;proto=https'}
        clear = bool(eng.choose(2, "clear"))
        return dict(fam=fam, trusted=[job["trusted"]], count=1, headers={KINDS[job["trusted"]]: base[job["trusted"]]},
                    extra={KINDS[job["other"]]: v}, clear=clear)
    if fam == "QS":
        hdr, prefix = QS_TEMPLATES[job["kind"]]
        x = _field_value_inner(eng, job["n"], "q")
        v = prefix + '"' + x + '"'
        return dict(fam=fam, trusted=[hdr], count=1, headers={KINDS[hdr]: v}, inner=x, clear=True)
    if fam == "HOP":
        x = _field_value(eng, job["nx"], "x")
        eng.assume(x.c[-1] != 0x20 if isinstance(x, SymSeq) and not isinstance(x.c[-1], int) else True)
        count = job["count"]
        nright = 1 + eng.choose(3, "nright")
        if nright < count:
            raise PathAbort()  # the left part would be within the trusted suffix
        if job["kind"] == "forwarded":
            # trusted hops with or without their own host= / proto=; the untrusted left part raw or as the value of a pair
            rstyle = eng.choose(3, "rstyle")
            right = ",".join(("for=%s;host=%s", "for=%s", "for=%s;proto=https")[rstyle] % ((h, h) if rstyle == 0 else (h,)) for h in HOPS[:nright])
            lstyle = eng.choose(4, "lstyle")
            x = ("", "host=", "for=a;host=", "proto=")[lstyle] + x
        else:
            right = ",".join(HOPS[:nright])
        return dict(fam=fam, trusted=[job["kind"]], count=count, headers={KINDS[job["kind"]]: right}, left=x, clear=True)
    # IDX
    k = job["k"]
    count = 1 + eng.choose(4, "count")
    wpos = eng.choose(k, "whop")
    hops = list(HOPS[:k])
    win = SymStr.fresh(2, "w")
    for c in win.c:
        _token_char(eng, c)
    hops[wpos] = hops[wpos][:1] + win + hops[wpos][3:]
    if job["kind"] == "forwarded":
        parts = []
        for h in hops:
            parts.append("for=" + h + ";host=" + h)
        value = parts[0]
        for p in parts[1:]:
            value = value + "," + p
    else:
        value = hops[0]
        for h in hops[1:]:
            value = value + ", " + h
    return dict(fam=fam, trusted=[job["kind"]], count=count, headers={KINDS[job["kind"]]: value}, hops=hops, clear=True)


def _call(ns, trusted, count, headers, clear):
    """-> (outcome, environ-subset)"""
    seen = {}

    def app(environ, start_response):
        seen["env"] = environ
        start_response("200 OK", [("Content-Length", "0")])
        return [b""]

    logger = ns.utilities.logger
    mw = ns.proxy_headers.proxy_headers_middleware(app, trusted_proxy=PEER, trusted_proxy_count=count, trusted_proxy_headers=set(trusted),
                                                   clear_untrusted=clear, log_untrusted=False, logger=logger)
    environ = {"REMOTE_ADDR": PEER, "REMOTE_HOST": PEER, "REMOTE_PORT": "50000", "SERVER_NAME": "waitress.invalid", "SERVER_PORT": "8080",
               "HTTP_HOST": "orig.example", "wsgi.url_scheme": "http", "REQUEST_METHOD": "GET", "PATH_INFO": "/"}
    environ.update(headers)
    status = []

    def start_response(s, h, exc_info=None):
        status.append(s)

    try:
        it = mw(environ, start_response)
        body = b"".join(it) if not isinstance(it, list) else b"".join(it)
    except Exception as e:  # noqa: the observation
        return ("exception:%s" % type(e).__name__, None)
    if "env" in seen:
        env = seen["env"]
        sub = {k: env.get(k) for k in META}
        for hk in KINDS.values():
            sub[hk] = env.get(hk)
        return ("app", sub)
    return ("status:%s" % (status[0][:3] if status else "none"), None)


def scenario(ns, inp):
    fam = inp["fam"]
    if fam in ("TOT", "IDX", "QS"):
        return dict(a=_call(ns, inp["trusted"], inp["count"], inp["headers"], inp["clear"]))
    if fam == "KIND":
        h2 = dict(inp["headers"])
        h2.update(inp["extra"])
        return dict(a=_call(ns, inp["trusted"], inp["count"], inp["headers"], inp["clear"]),
                    b=_call(ns, inp["trusted"], inp["count"], h2, inp["clear"]))
    # HOP
    (hk, right), = inp["headers"].items()
    left = inp["left"]
    return dict(a=_call(ns, inp["trusted"], inp["count"], {hk: right}, True),
                b=_call(ns, inp["trusted"], inp["count"], {hk: left + "," + right}, True))


def _has(x, ch):
    return ch in x if isinstance(x, str) else (lift(x).find(ch) >= 0)


def _total(o):
    return o[0] == "app" or o[0] == "status:400"


def oracle(inp, obs):
    fam = inp["fam"]
    out = []
    for k in sorted(obs):
        out.append(("outcome is an application call or a 400 response, never an exception or another status (got %s)" % obs[k][0], _total(obs[k])))
        if obs[k][0] == "app":
            e = obs[k][1]
            out.append(("an unsupported scheme is refused: wsgi.url_scheme handed to the application is http or https",
                        s_or(sym_equal(e["wsgi.url_scheme"], "http"), sym_equal(e["wsgi.url_scheme"], "https"))))
            out.append(("an empty client address is refused: REMOTE_ADDR handed to the application is not empty", len(e["REMOTE_ADDR"]) > 0))
            out.append(("several values where one is required are refused: SERVER_PORT handed to the application is a single value",
                        not bool(_has(e["SERVER_PORT"], ","))))
    if fam == "TOT":
        (kind,) = inp["trusted"]
        v = inp["headers"][KINDS[kind]]
        if kind in ("x-forwarded-proto", "x-forwarded-port") and len(v):
            lone = bool(lift(v)[:1] == '"') != bool(lift(v)[-1:] == '"')
            if lone or (len(v) == 1 and bool(lift(v) == '"')):
                out.append(("bad quoting (a lone double quote at one end) is refused with 400", obs["a"][0] == "status:400"))
        if kind == "forwarded" and len(v):
            bad_pair = False
            for el in lift(v).split(","):
                for pair in lift(el).strip().split(";") if len(el) else []:
                    if len(pair) and not bool(_has(pair, "=")):
                        bad_pair = True
            if bad_pair:
                out.append(("a Forwarded pair without '=' is refused with 400", obs["a"][0] == "status:400"))
    if fam == "QS":
        x = inp["inner"]
        # waitress splits list headers at every ',' (and Forwarded elements at every ';') before looking at quotes: with a separator inside X
        # the quoted value is not one value any more, and no particular verdict is demanded here
        separated = len(x) and (bool(_has(x, ",")) or (inp["trusted"] == ["forwarded"] and bool(_has(x, ";"))))
        if not separated and not _is_quoted_string_interior(x):
            out.append(("bad quoting (a value in double quotes that is not a quoted-string) is refused with 400", obs["a"][0] == "status:400"))
    if fam == "KIND":
        a, b = obs["a"], obs["b"]
        if a[0] == "app" and b[0] == "app":
            (ok_key, _), = inp["extra"].items()
            out.append(("a header kind that is not trusted does not change the connection metadata",
                        s_and(*[sym_equal(a[1][k], b[1][k]) for k in META])))
            if inp["clear"]:
                out.append(("a header kind that is not trusted is stripped (clear_untrusted_proxy_headers)", b[1][ok_key] is None))
        out.append(("a header kind that is not trusted cannot turn the outcome into a refusal or vice versa", a[0] == b[0]))
    if fam == "HOP":
        a, b = obs["a"], obs["b"]
        out.append(("the request with only trusted hops is accepted", a[0] == "app"))
        if a[0] == "app" and b[0] == "app":
            keys = list(META) + list(KINDS.values())
            out.append(("hops further left than trusted_proxy_count neither change the metadata nor reach the application",
                        s_and(*[sym_equal(a[1][k], b[1][k]) for k in keys])))
    if fam == "IDX":
        a = obs["a"]
        out.append(("token hops are accepted", a[0] == "app"))
        if a[0] == "app":
            hops = inp["hops"]
            sel = hops[max(0, len(hops) - inp["count"])]
            (kind,) = inp["trusted"]
            if kind in ("x-forwarded-for", "forwarded"):
                out.append(("REMOTE_ADDR is exactly the trusted_proxy_count-th hop from the right (leftmost if fewer)", sym_equal(a[1]["REMOTE_ADDR"], sel)))
            if kind in ("x-forwarded-host", "forwarded"):
                out.append(("SERVER_NAME / HTTP_HOST are exactly the trusted_proxy_count-th hop from the right (leftmost if fewer)",
                            s_and(sym_equal(a[1]["SERVER_NAME"], sel), sym_equal(a[1]["HTTP_HOST"], sel))))
    return out


def normalize(obs):
    def n(x):
        if isinstance(x, dict):
            return tuple((k, n(v)) for k, v in sorted(x.items()))
        if isinstance(x, (list, tuple)):
            return tuple(n(y) for y in x)
        return x
    return n(obs)


def goals(cin, cobs):
    out = []
    a = cobs["a"]
    for o in cobs.values():
        if o[0] == "app":
            out.append("application called")
            if o[1]["REMOTE_ADDR"] != PEER:
                out.append("client address taken from a hop")
            if o[1]["SERVER_NAME"] != "waitress.invalid":
                out.append("host rewritten")
            if o[1]["wsgi.url_scheme"] != "http":
                out.append("scheme rewritten")
        if o[0] == "status:400":
            out.append("400 for a malformed header")
    if cin["fam"] == "HOP" and cobs["b"][0] == "app":
        out.append("left hops dropped from the forwarded header")
    return out
