"""C09 Application failures are contained and the iterable is always closed."""
import errno

from harness import common, C03
from refs import http_resp
from wsx import env
from wsx.core import E, PathAbort, sym_equal

PROPERTY = "C09"
BUDGET = {"quick": 900, "thorough": 2400}
namespaces = common.namespaces
real_namespace = common.real_namespace
GOALS = ["client EOF seen while the application runs", "500 before output", "closed after output had begun", "traceback exposed only when configured", "iterable closed once on failure",
         "iterable closed once on client disconnect", "file wrapper file closed after sending", "file wrapper file closed on teardown",
         "worker survives a BaseException"]
ASSUMPTIONS = ["one worker running the real handler_thread loop body; the I/O thread's turn (handle_write) follows the worker's",
               "the client disconnect is a send() failing with EPIPE / EIO from a symbolic send onwards"]
STUBS = ["as C01", "traceback.format_exc (fixed text)"]
STEPS = (None, "call", "after_start_response", "iter0", "iter1", "write0", "write1", "close")
CLASSES = ("Exception", "ValueError", "OSError", "ConnectionResetError", "BaseException")
MODES = ("list", "gen", "write", "file", "file_noseek")


class AppBase(BaseException):
    """a BaseException subclass that is not an Exception"""


def _exc(name):
    return {"Exception": C03.AppError, "ValueError": ValueError, "OSError": OSError, "ConnectionResetError": ConnectionResetError,
            "BaseException": AppBase}[name]


def _d12(inp, obs, label=""):
    """known finding D12: an application raising a BaseException subclass that is not an Exception is not answered /
    closed by channel.service().  That the worker and the I/O loop survive is still demanded."""
    return inp["exc"] == "BaseException" and inp["step"] is not None and not label.startswith(("the worker survives", "no exception reaches"))


def _d19(inp, obs, label=""):
    """known finding D19: an OSError raised by the application is taken for a socket error by Task.service: with
    log_socket_errors off it is swallowed - no 500 - and the connection is just closed"""
    return inp["exc"] in ("OSError", "ConnectionResetError") and inp["step"] is not None and not inp["logsock"]


KNOWN = {"D12-baseexception-not-contained": _d12, "D19-app-oserror-taken-for-socket-error": _d19}


def BOUNDS(tier):
    return ("application modes %r with 0..2 pieces; exception of class %r injected at step %r; client disconnect (EPIPE) from send number 1..3 "
            "(errno EPIPE or EIO) or never; expose_tracebacks and log_socket_errors on/off; HTTP/1.1 and 1.0 GET with and without Connection: keep-alive."
            % (MODES, CLASSES, STEPS))


def jobs(tier):
    js = []
    for mode in MODES:
        for step in STEPS:
            if step in ("iter0", "iter1") and mode not in ("gen",):
                continue
            if step in ("write0", "write1") and mode != "write":
                continue
            if step == "close" and mode in ("file", "file_noseek"):
                continue  # the file wrapper object is the server's own; there is no application close() to fail
            js.append(dict(name="F:%s:%s" % (mode, step), mode=mode, step=step))
    js.append(dict(name="TEARDOWN", fam="TEARDOWN", mode="file", step=None))
    return js


def make_inputs(job):
    eng = E()
    if job.get("fam") == "TEARDOWN":
        return dict(fam="TEARDOWN", nfiles=1 + eng.choose(3, "nfiles"), bad=eng.choose(3, "bad"), via=("will_close", "handle_close")[eng.choose(2, "via")],
                    step=None, exc="Exception", disc=None, mode="file")
    k = eng.choose(3, "k")
    pieces = [b"abc", b"de"][:k]
    step = job["step"]
    if step in ("iter1", "write1") and k < 2:
        raise PathAbort()
    if step in ("iter0", "write0") and k < 1:
        raise PathAbort()
    exc = CLASSES[eng.choose(len(CLASSES), "exc")] if step is not None else "Exception"
    disc = (None, 1, 2, 3)[eng.choose(4, "disc")]
    # the failing send: EPIPE (the dispatcher itself treats it as a disconnect) or EIO (propagates to the channel's flush error handling)
    derr = ("EPIPE", "EIO")[eng.choose(2, "derr")] if disc is not None else "EPIPE"
    ka = bool(eng.choose(2, "ka"))
    eof = bool(eng.choose(2, "eof")) if step is None and disc is None else False
    return dict(mode=job["mode"], pieces=pieces, step=step, exc=exc, disc=disc, expose=bool(eng.choose(2, "expose")),
                logsock=bool(eng.choose(2, "logsock")), ver=("1.1", "1.0")[eng.choose(2, "ver")], hascl=bool(eng.choose(2, "hascl")), eof=eof,
                derr=derr, ka=ka)


class FailApp:
    def __init__(self, inp, ns):
        self.inp = inp
        self.ns = ns
        self.closes = 0
        self.file = None
        self.ncalls = 0

    def _maybe(self, step):
        if self.inp["step"] == step:
            raise _exc(self.inp["exc"])("injected at %s" % step)

    def __call__(self, environ, start_response):
        self.ncalls += 1
        inp = self.inp
        self._maybe("call")
        hdrs = [("X-App", "1")]
        total = sum(len(p) for p in inp["pieces"])
        if inp["hascl"]:
            hdrs.append(("Content-Length", str(total)))
        mode = inp["mode"]
        app = self

        class It:
            def __init__(self, it):
                self.it = it

            def __iter__(self):
                return self

            def __next__(self):
                return next(self.it)

            def close(self):
                app.closes += 1
                app._maybe("close")

        if mode == "gen":
            def gen():
                start_response("200 OK", hdrs)
                app._maybe("after_start_response")
                for i, p in enumerate(inp["pieces"]):
                    app._maybe("iter%d" % i)
                    yield p
            return It(gen())
        if mode == "write":
            write = start_response("200 OK", hdrs)
            self._maybe("after_start_response")
            it = It(iter(()))
            try:
                for i, p in enumerate(inp["pieces"]):
                    self._maybe("write%d" % i)
                    write(p)
            except BaseException:
                # PEP 3333: the server calls close() on what the app returned; an app that fails before
                # returning has nothing to close - count it as closed by the app itself
                self.closes += 1
                raise
            return it
        start_response("200 OK", hdrs)
        self._maybe("after_start_response")
        if inp.get("eof"):
            # the I/O thread saw the client's EOF while the application was running (handle_read: recv() returned b"")
            environ["waitress.client_disconnected"].__self__.connected = False
        if mode == "list":
            return It(iter(list(inp["pieces"])))
        data = b"".join(inp["pieces"])
        f = C03._make_file(self.ns, data) if mode == "file" else C03.NoSeekFile(data)
        self.file = f
        w = environ["wsgi.file_wrapper"](f, 2)
        return w


class Sentinel:
    def __init__(self, d):
        self.d = d
        self.ran = 0

    def service(self):
        self.ran += 1
        if self.d.queue:
            self.d.queue.append(self)
        else:
            self.d.stop_count = 1

    def cancel(self):
        pass


class RaisingCloseFile:
    """file-like whose close() raises (once): a descriptor that fails on close"""

    def __init__(self, inner, raises):
        self.inner = inner
        self.raises = raises
        self.close_calls = 0

    def read(self, n=-1): return self.inner.read(n)
    def seek(self, *a): return self.inner.seek(*a)
    def tell(self): return self.inner.tell()
    def seekable(self): return True

    def close(self):
        self.close_calls += 1
        if self.raises:
            raise OSError(5, "close failed")


def _teardown(ns, inp):
    """several responses with handed-over files queued behind a client that does not read; then the connection is torn down"""
    adj = common.make_adj(ns)
    files = []

    def app(environ, start_response):
        i = len(files)
        f = RaisingCloseFile(C03._make_file(ns, b"data%d" % i), raises=(i == inp["bad"]))
        files.append(f)
        start_response("200 OK", [("Content-Length", "5")])
        return environ["wsgi.file_wrapper"](f, 2)

    sock = env.SimSocket()
    sock.accept = [0] * 50  # the client does not read
    ch, srv, sock = common.new_channel(ns, adj, app, sock)
    exc = None
    try:
        ch.received(b"".join(b"GET /%d HTTP/1.1\r\n\r\n" % i for i in range(inp["nfiles"])))
        srv.task_dispatcher.run_all()
        if inp["via"] == "will_close":
            ch.will_close = True
            ch.handle_write()
        else:
            ch.handle_close()
    except Exception as e:  # noqa
        exc = type(e).__name__
    return dict(wire=b"", nsend=sock.nsend, closing=common.closing(ch), sock_closed=sock.closed, worker_alive=True, escaped=None, io_exc=exc,
                closes=0, fclose=[f.close_calls for f in files], ncalls=len(files), queued=len(ch.requests), connected=bool(ch.connected))


def scenario(ns, inp):
    if inp.get("fam") == "TEARDOWN":
        return _teardown(ns, inp)
    adj = common.make_adj(ns, expose_tracebacks=inp["expose"], log_socket_errors=inp["logsock"])
    app = FailApp(inp, ns)
    sock = env.SimSocket()
    if inp["disc"] is not None:
        code = getattr(errno, inp.get("derr", "EPIPE"))
        sock.fail_send = lambda n, k=inp["disc"]: OSError(code, "send failed") if n >= k else None
    ch, srv, sock = common.new_channel(ns, adj, app, sock)
    d = ns.task.ThreadedTaskDispatcher()
    srv.add_task = d.add_task
    escaped = None
    worker_alive = True
    try:
        ch.received(("GET / HTTP/%s\r\n%s\r\n" % (inp["ver"], "Connection: keep-alive\r\n" if inp.get("ka") else "")).encode())
        d.threads.add(0)
        d.active_count = 1
        d.queue.append(Sentinel(d))
        try:
            d.handler_thread(0)  # the real worker loop body; returns through the stop path
        except BaseException as e:  # noqa
            worker_alive = False
            escaped = type(e).__name__
        io_exc = None
        for _ in range(4):
            try:
                if ch.connected and ch.writable():
                    ch.handle_write()
            except Exception as e:  # noqa
                io_exc = type(e).__name__
    except Exception as e:  # noqa
        escaped = "harness:" + type(e).__name__
        io_exc = None
    fclose = None
    if app.file is not None:
        fclose = getattr(app.file, "close_calls", None)
        if fclose is None:
            fclose = app.file.closed
    return dict(wire=sock.wire(), nsend=sock.nsend, closing=common.closing(ch), sock_closed=sock.closed, worker_alive=worker_alive, escaped=escaped, io_exc=io_exc,
                closes=app.closes, fclose=fclose, ncalls=app.ncalls, queued=len(ch.requests), connected=bool(ch.connected))


def oracle(inp, obs):
    if inp.get("fam") == "TEARDOWN":
        return [("teardown raises nothing into the I/O loop (io_exc=%s)" % obs["io_exc"], obs["io_exc"] is None),
                ("every file handed over through wsgi.file_wrapper is closed on teardown, also when another file's close() fails (close calls %r)" % (obs["fclose"],),
                 len(obs["fclose"]) == inp["nfiles"] and all(c >= 1 for c in obs["fclose"])),
                ("the socket is closed", obs["sock_closed"] >= 1)]
    out = [("the worker survives (the real handler_thread loop returns through its stop path; escaped=%s)" % obs["escaped"], obs["worker_alive"] and obs["escaped"] is None),
           ("no exception reaches the I/O loop (io_exc=%s)" % obs["io_exc"], obs["io_exc"] is None)]
    step, disc = inp["step"], inp["disc"]
    wire = obs["wire"]
    resps = [r for r in http_resp.read_responses(wire, ["GET"]) if not r.get("interim")] if len(wire) else []
    TB = b"Traceback (most recent call last)"
    if not inp["expose"]:
        out.append(("no traceback text on the wire unless expose_tracebacks is set", wire.find(TB) < 0))
    # was any application output on the wire before the failure?
    failing = step is not None
    if inp["mode"] in ("list", "file", "file_noseek", "gen") or step in ("call", "after_start_response", "write0"):
        before_output = step in ("call", "after_start_response", "iter0", "write0") or (step == "close" and False)
    else:
        before_output = False
    if failing and step != "close" and disc is None:
        if before_output:
            ok = len(resps) == 1 and resps[0]["status"] == 500 and resps[0]["complete"] and http_resp.says_close(resps[0])
            out.append(("a failure before any output produces exactly one complete 500 response announcing close", ok))
            if inp["expose"]:
                out.append(("with expose_tracebacks the 500 body carries the traceback", wire.find(TB) >= 0))
        else:
            out.append(("a failure after output had begun sends no 500 and nothing after the bytes already produced",
                        len(resps) >= 1 and resps[0]["status"] == 200 and wire.find(b" 500 ") < 0))
        out.append(("after an application failure the connection is closed", obs["closing"] and obs["queued"] == 0))
    if failing and step == "close" and disc is None:
        out.append(("a failing close() does not keep the connection in service", obs["closing"] and obs["queued"] == 0))
    if inp.get("eof") and inp["mode"] in ("list", "file", "file_noseek"):
        out.append(("a client that disconnected while the application was running gets nothing more", len(wire) == 0))
    if disc is not None and obs["nsend"] >= disc:
        out.append(("after a client disconnect the connection is torn down", obs["sock_closed"] >= 1 and not obs["connected"]))
    # close() of the iterable: exactly once on every path where the application returned an iterable
    returned_iterable = step not in ("call",) and not (inp["mode"] != "gen" and step == "after_start_response") and not (inp["mode"] == "write" and step in ("write0", "write1"))
    if inp["mode"] in ("file", "file_noseek"):
        if returned_iterable and obs["fclose"] is not None:
            out.append(("the file handed to wsgi.file_wrapper is closed (after sending, or on teardown); close() calls: %s" % obs["fclose"], obs["fclose"] >= 1))
    elif returned_iterable:
        out.append(("close() of the application iterable is called exactly once (got %d)" % obs["closes"], obs["closes"] == 1))
    else:
        out.append(("close() is not called more than once", obs["closes"] <= 1))
    return out


def normalize(obs):
    return tuple(sorted(obs.items()))


def goals(cin, cobs):
    out = []
    if cin.get("fam") == "TEARDOWN":
        return ["file wrapper file closed on teardown"]
    w = cobs["wire"]
    if b" 500 " in w[:20]:
        out.append("500 before output")
        if (b"Traceback" in w) == cin["expose"]:
            out.append("traceback exposed only when configured")
    if cin["step"] in ("iter1", "write1") and cobs["closing"]:
        out.append("closed after output had begun")
    if cin["step"] is not None and cobs["closes"] == 1 and cin["mode"] in ("gen", "list"):
        out.append("iterable closed once on failure")
    if cin["disc"] is not None and cobs["nsend"] >= cin["disc"] and cobs["closes"] == 1:
        out.append("iterable closed once on client disconnect")
    if cin["mode"] == "file" and cobs["fclose"]:
        out.append("file wrapper file closed after sending" if cin["disc"] is None else "file wrapper file closed on teardown")
    if cin.get("eof"):
        out.append("client EOF seen while the application runs")
    if cin["exc"] == "BaseException" and cin["step"] is not None and cobs["worker_alive"]:
        out.append("worker survives a BaseException")
    return out
