"""C01 Request framing is unambiguous and agrees with RFC 9112."""
from harness import common, framing, streams
from wsx.core import E

PROPERTY = "C01"
BUDGET = {"quick": 900, "thorough": 3000}
namespaces = common.namespaces
real_namespace = common.real_namespace
CRITICAL = ("cl_pipe", "chunk_ext_tr", "cl_te", "te10_ka", "te_padded", "chunk_bigsize", "close_pipe")
GOALS = ["chunked body delivered", "content-length body delivered", "refused 400", "refused 501", "pipelined second message delivered",
         "closed after CL+TE message"]
ASSUMPTIONS = [
    "one read delivers the whole stream (segmentation is C02); requests are serviced after the read",
    "the application answers 200 with a fixed 2-byte body and reads the whole request body",
    "default size limits (limits are C06)",
]
STUBS = ["socket (SimSocket, accepts every send)", "task dispatcher (synchronous)", "time.time (fixed clock)", "loggers (captured, never formatted)",
         "io.BytesIO / tempfile.TemporaryFile (SymFile model)", "re patterns (backtracking model built from the compiled pattern's parse tree)",
         "int() (positional model incl. sign/underscore/whitespace syntax)", "urllib.parse.urlsplit (stdlib source under the same instrumentation)",
         "urllib.parse.unquote_to_bytes (model)"]


def BOUNDS(tier):
    w = "1 (2 on the framing-critical skeletons %s)" % (CRITICAL,) if tier == "quick" else "2 (3 on the framing-critical skeletons %s)" % (CRITICAL,)
    return ("F1: every skeleton of harness/streams.K (%d messages / pipelines), a window of w=%s fully symbolic bytes substituted at and "
            "inserted at every byte position, all 256^w values; F2: all byte strings of length <= %d as chunked body / inside a chunk / "
            "at the chunk terminator / in the trailer / as header block / as request line%s; F3: Content-Length values and chunk-size "
            "lines of <= %d fully symbolic bytes.  Outside: longer symbolic spans, >3 pipelined messages, bodies > 16 bytes." % (
                len(streams.K), w, 5 if tier == "quick" else 7, " (request line: <= 4)" if tier == "quick" else " (request line: <= 5)", 3 if tier == "quick" else 4))


CRITICAL = ("cl_pipe", "chunk_ext_tr", "cl_te", "te10_ka", "te_padded", "chunk_bigsize", "close_pipe")


def jobs(tier):
    allk = list(streams.K)
    if tier == "quick":
        js = streams.f1_jobs(allk, 1) + streams.f1_jobs(CRITICAL, 2, per_job=6)
        js += [j for j in streams.f2_jobs(5) if j["name"] != "F2:reqline:n5"] + streams.f3_jobs(3)  # reqline n5: 4500 paths / 2.5 min, thorough tier
    else:
        js = streams.f1_jobs(allk, 1) + streams.f1_jobs(allk, 2, per_job=6) + streams.f1_jobs(CRITICAL, 3, per_job=2)
        js += [j for j in streams.f2_jobs(7) if not (j["phase"] == "reqline" and j["n"] > 5)] + streams.f3_jobs(4)
    # SEG: the same comparison with the stream delivered in two reads (every cut) and byte-at-a-time: the
    # RFC reading of a stream does not depend on segmentation (the relational form of this is C02)
    for nm in allk:
        js.append(dict(name="SEG:%s" % nm, family="SEG", skeleton=nm))
    return js


def make_inputs(job):
    if job["family"] == "SEG":
        sk = streams.K[job["skeleton"]]
        c = E().choose(len(sk), "cut")  # 0 = byte-at-a-time, otherwise one cut at c
        return {"stream": sk, "cuts": list(range(1, len(sk))) if c == 0 else [c]}
    return {"stream": streams.make_stream(job), "cuts": []}


def scenario(ns, inputs):
    s = inputs["stream"]
    pieces, last = [], 0
    for c in inputs.get("cuts", []):
        pieces.append(s[last:c])
        last = c
    pieces.append(s[last:])
    return framing.impl_events(ns, pieces, service="each")


def oracle(inputs, obs):
    ref = framing.reference(inputs["stream"], strict_target_ctl=None)
    return framing.compare(obs, ref)


normalize = framing.norm_obs


def goals(cin, cobs):
    out = []
    ev = cobs["events"]
    for i, e in enumerate(ev):
        if e[0] == "req":
            if e[5] and any(k == "CONTENT_LENGTH" for k, _ in e[4]):
                if b"chunked" in cin["stream"].lower():
                    out.append("chunked body delivered")
                else:
                    out.append("content-length body delivered")
            if i >= 1:
                out.append("pipelined second message delivered")
        elif e[0] == "err":
            out.append("refused %d" % e[1])
    if cobs["closing"] and len(ev) == 1 and ev[0][0] == "req" and b"chunked" in cin["stream"].lower() and b"content-length" in cin["stream"].lower():
        out.append("closed after CL+TE message")
    return out
