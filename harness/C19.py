"""C19 Expect: 100-continue is answered correctly and the request is never lost."""
from harness import common
from refs import http_resp
from wsx import env
from wsx.core import E, PathAbort, sym_equal

PROPERTY = "C19"
BUDGET = {"quick": 900, "thorough": 2400}
namespaces = common.namespaces
real_namespace = common.real_namespace
GOALS = ["100 sent on receipt (idle connection)", "100 sent by the worker after the preceding response", "expecting request without body executed",
         "strict client released by the interim response", "no interim for HTTP/1.0", "refused expecting request answered with an error"]
ASSUMPTIONS = [
    "schedule granularity: after each read the worker either services everything queued before the next read or only after it (coarse "
    "interleaving of I/O thread and worker; statement-level interleavings of this code are C04/C11 territory)",
    "two client models: strict (sends the body of an expecting request only after seeing the interim or a final response) and eager (sends at once)",
]
STUBS = ["as C01"]
KINDS = {
    "G": (b"GET /%d HTTP/1.1\r\nX-Id: %d\r\n\r\n", b"", False, True),
    "E0": (b"GET /%d HTTP/1.1\r\nExpect: 100-continue\r\nX-Id: %d\r\n\r\n", b"", True, True),
    "EB": (b"POST /%d HTTP/1.1\r\nExpect: 100-continue\r\nContent-Length: 3\r\nX-Id: %d\r\n\r\n", b"abc", True, True),
    "EC": (b"POST /%d HTTP/1.1\r\nExpect: 100-Continue\r\nTransfer-Encoding: chunked\r\nX-Id: %d\r\n\r\n", b"2\r\nhi\r\n0\r\n\r\n", True, True),
    "E10": (b"POST /%d HTTP/1.0\r\nExpect: 100-continue\r\nConnection: keep-alive\r\nContent-Length: 3\r\nX-Id: %d\r\n\r\n", b"abc", True, False),
    "B": (b"POST /%d HTTP/1.1\r\nContent-Length: 3\r\nX-Id: %d\r\n\r\n", b"xyz", False, True),
    "EX": (b"POST /%d HTTP/1.1\r\nExpect: 100-continue\r\nContent-Length: 3x\r\nX-Id: %d\r\n\r\n", b"", True, True),
}
BODY = {"": b"", "abc": b"abc", "xyz": b"xyz", "chunk": b"hi"}


def BOUNDS(tier):
    return ("pipelines of 1..2 requests over the kinds %r plus %s; strict and eager client; one extra cut of one request head at %s; at every "
            "boundary between two segments (heads, bodies, halves of the cut head) the choices 'coalesce the next segment into this read' and "
            "'worker services now / after the next read'." % (
                sorted(KINDS), "the triples G-G-EB, G-G-EC, B-G-EB, B-G-EC" if tier == "quick" else "twelve triples over G / EB / E0",
                "one third of its length or inside the final CRLFCRLF (3 places)" if tier == "quick" else
                "its first byte, one third, two thirds of its length or inside the final CRLFCRLF (3 places)"))


def jobs(tier):
    js = [dict(j, tier=tier) for j in _jobs(tier)]
    js = common.shard(js, "cutreq", 4, lambda j: len(j["pipe"]) == 3)
    js = common.shard(js, "strict", 2, lambda j: len(j["pipe"]) == 3)
    return js


def _jobs(tier):
    kinds = sorted(KINDS)
    js = []
    for a in kinds:
        js.append(dict(name="P:%s" % a, pipe=[a]))
        for b in kinds:
            if not (KINDS[a][2] or KINDS[b][2]):
                if tier == "quick" and (a, b) in (("G", "G"), ("B", "G")):
                    for c in ("EB", "EC"):
                        js.append(dict(name="P:%s-%s-%s" % (a, b, c), pipe=[a, b, c]))
                continue
            js.append(dict(name="P:%s-%s" % (a, b), pipe=[a, b]))
            if tier == "quick" and (a, b) in (("G", "G"), ("B", "G")):
                for c in ("EB", "EC"):
                    js.append(dict(name="P:%s-%s-%s" % (a, b, c), pipe=[a, b, c]))
            if tier == "thorough" and a in ("G", "EB") and b in ("EB", "E0", "G"):
                for c in ("G", "EB"):
                    js.append(dict(name="P:%s-%s-%s" % (a, b, c), pipe=[a, b, c]))
    return js


def make_inputs(job):
    eng = E()
    n = len(job["pipe"])
    strict = bool(eng.choose(2, "strict"))
    # per segment (head, body of each request): coalesce with the previous read? service after the read?
    cutreq = eng.choose(n + 1, "cutreq")  # 0 = no extra cut; k = cut the head of request k at cutoff
    cutoff = 0
    if cutreq:
        hl = len(KINDS[job["pipe"][cutreq - 1]][0] % (1, 1))
        # cut inside the final CRLFCRLF (3 places), right after the Expect line / mid-head (2 places), after the first byte
        spots = sorted(set([1, hl // 3, (2 * hl) // 3, hl - 3, hl - 2, hl - 1]))
        if job.get("tier") == "quick":
            spots = sorted(set([hl // 3, hl - 3, hl - 2, hl - 1]))
        cutoff = spots[eng.choose(len(spots), "cutoff")]
    # one decision pair per boundary between two segments (heads, bodies, the two halves of a cut head); after the last segment everything is
    # read and serviced anyway
    nseg = n + sum(1 for k in job["pipe"] if KINDS[k][1]) + (1 if cutreq else 0)
    coalesce = [bool(eng.choose(2, "co%d" % i)) for i in range(nseg - 1)] + [False]
    service = [bool(eng.choose(2, "sv%d" % i)) for i in range(nseg - 1)] + [True]
    return dict(pipe=job["pipe"], strict=strict, coalesce=coalesce, service=service, cutreq=cutreq, cutoff=cutoff)


def scenario(ns, inp):
    adj = common.make_adj(ns)
    calls = []

    def app(environ, start_response):
        body = environ["wsgi.input"].read()
        calls.append((environ["PATH_INFO"], environ.get("HTTP_X_ID"), environ.get("HTTP_EXPECT"), body,
                      sorted(k for k in environ if k.startswith("HTTP_"))))
        start_response("200 OK", [("Content-Length", "2")])
        return [b"ok"]

    ch, srv, sock = common.new_channel(ns, adj, app, sym_headers=False)
    segs = []  # (request index, "head"/"body", bytes, gated)
    for i, k in enumerate(inp["pipe"]):
        head, body, expecting, is11 = KINDS[k]
        h = head % (i + 1, i + 1)
        if inp["cutreq"] == i + 1:
            segs.append((i, "head", h[:inp["cutoff"]], False))
            segs.append((i, "head", h[inp["cutoff"]:], False))
        else:
            segs.append((i, "head", h, False))
        if body:
            segs.append((i, "body", body, expecting and is11 and inp["strict"]))
    exc = None
    stuck = None
    events = []
    try:
        i = 0
        si = 0
        pending = b""
        while i < len(segs):
            ri, what, data, gated = segs[i]
            if gated:
                # strict client: wait for the interim (or a final) response to request ri
                srv.task_dispatcher.run_all()
                if common.closing(ch):
                    break  # the client sees the final response and the close: it is not waiting
                if not _released(sock.wire(), ri):
                    stuck = ri
                    break
            pending += data
            i += 1
            co = inp["coalesce"][min(si, len(inp["coalesce"]) - 1)]
            nxt_gated = i < len(segs) and segs[i][3]
            if co and i < len(segs) and not nxt_gated:
                continue
            if common.closing(ch):
                break
            ch.received(pending)
            events.append(("read", len(pending)))
            pending = b""
            if inp["service"][min(si, len(inp["service"]) - 1)]:
                srv.task_dispatcher.run_all()
                events.append(("service",))
            si += 1
        if pending and not common.closing(ch):
            ch.received(pending)
        srv.task_dispatcher.run_all()
        for _ in range(3):
            if ch.connected and ch.writable():
                ch.handle_write()
    except Exception as e:  # noqa
        exc = type(e).__name__
    return dict(wire=sock.wire(), calls=calls, stuck=stuck, exc=exc, closing=common.closing(ch), pending=ch.request is not None)


def _released(wire, ri):
    """has the client seen an interim response for request ri (the ri-th final response not yet sent), or its final response?"""
    resps = http_resp.read_responses(wire, ["GET"] * 8) if len(wire) else []
    finals = 0
    for r in resps:
        if r.get("interim"):
            if finals == ri:
                return True
        elif r["status"] is not None:
            finals += 1
    return finals > ri


def oracle(inp, obs):
    out = [("no exception escapes", obs["exc"] is None)]
    pipe = inp["pipe"]
    out.append(("a client that waits for the interim response is never left waiting (stuck on request %s)" % obs["stuck"], obs["stuck"] is None))
    resps = http_resp.read_responses(obs["wire"], ["GET"] * 8) if len(obs["wire"]) else []
    out.append(("the bytes on the wire are a sequence of complete responses (no interim inside another response)",
                all(r["status"] is not None and r["complete"] for r in resps)))
    # group: interims before each final
    per_req = []
    cur = 0
    finals = []
    for r in resps:
        if r["status"] is None:
            break
        if r.get("interim"):
            cur += 1
        else:
            per_req.append(cur)
            finals.append(r)
            cur = 0
    trailing_interims = cur
    # expected number of executed requests: up to and including the first refused one
    nexp = 0
    for k in pipe:
        nexp += 1
        if k == "EX":
            break
    if obs["stuck"] is None:
        out.append(("every request is answered exactly once, in order (%d final responses for %d requests)" % (len(finals), nexp), len(finals) == nexp))
    for i, k in enumerate(pipe[:len(finals)]):
        head, body, expecting, is11 = KINDS[k]
        n100 = per_req[i]
        if not expecting or not is11:
            out.append(("request %d (%s): no interim response for a request that did not ask or is HTTP/1.0" % (i + 1, k), n100 == 0))
        else:
            out.append(("request %d (%s): at most one interim 100 Continue, placed after all earlier responses and before its own final response" % (i + 1, k), n100 <= 1))
            if body and inp["strict"] and k != "EX":
                out.append(("request %d (%s): exactly one interim response for a client that was waiting" % (i + 1, k), n100 == 1))
        if k == "EX":
            out.append(("request %d: refused framing is answered with a final error response" % (i + 1), finals[i]["status"] == 400))
        else:
            out.append(("request %d (%s): final response is the application's" % (i + 1, k), finals[i]["status"] == 200))
    out.append(("no interim response after the last final response", trailing_interims == 0 or obs["stuck"] is not None))
    # application calls: one per executed non-refused request, each with its own fields and body only
    want_calls = []
    for i, k in enumerate(pipe[:nexp]):
        if k == "EX":
            break
        head, body, expecting, is11 = KINDS[k]
        want_calls.append(("/%d" % (i + 1), str(i + 1), ("100-continue" if k != "EC" else "100-Continue") if expecting else None,
                           {"EC": b"hi"}.get(k, body)))
    if obs["stuck"] is None:
        got = [c[:4] for c in obs["calls"]]
        out.append(("each request is executed exactly once with only its own header fields and body (got %r)" % (got,), got == want_calls))
    return out


def normalize(obs):
    return (obs["wire"], tuple(tuple(c[:4]) + (tuple(c[4]),) for c in obs["calls"]), obs["stuck"], obs["exc"], obs["closing"], obs["pending"])


def goals(cin, cobs):
    out = []
    w = cobs["wire"]
    if w.startswith(b"HTTP/1.1 100 Continue"):
        out.append("100 sent on receipt (idle connection)")
    if b"ok" + b"HTTP/1.1 100 Continue" in w:
        out.append("100 sent by the worker after the preceding response")
    if any(c[2] and c[3] == b"" for c in cobs["calls"]) and "E0" in cin["pipe"]:
        out.append("expecting request without body executed")
    if cin["strict"] and cobs["stuck"] is None and any(KINDS[k][1] and KINDS[k][2] for k in cin["pipe"]) and b"100 Continue" in w:
        out.append("strict client released by the interim response")
    if "E10" in cin["pipe"] and b"100 Continue" not in w:
        out.append("no interim for HTTP/1.0")
    if "EX" in cin["pipe"] and b" 400 " in w:
        out.append("refused expecting request answered with an error")
    return out
