"""C14 Worker pool: every task runs exactly once or is cancelled exactly once."""
from collections import deque

from harness import common
from wsx import env, sched
from wsx.core import E, PathAbort, ReplayEngine

PROPERTY = "C14"
BUDGET = {"quick": 600, "thorough": 2400}
real_namespace = common.real_namespace
GOALS = ["task serviced", "task cancelled by shutdown", "task left queued by shutdown(cancel_pending=False)", "worker stopped by resize",
         "follow-up task submitted from a task body", "pre-empted schedule explored"]
ASSUMPTIONS = ["interleavings at the granularity of lock / condition operations, thread start and every source line of task.py's dispatcher",
               "timed condition waits expire only when no thread can run (time passes when the system is idle)"]
STUBS = ["threading.Lock / Condition / Thread (cooperative models under the scheduler)", "time.time (simulated clock)", "loggers (captured)"]


def namespaces():
    W, P = common.namespaces()
    return W, None  # the plain copy has no scheduling points: counterexamples are replayed instead


def BOUNDS(tier):
    return ("controller programs of <= 2 operations over {add_task (with / without a follow-up submission from the task body, long-running), release, "
            "set_thread_count(0..3), shutdown(cancel_pending True/False)} after set_thread_count(1..2), every interleaving with at most 2 pre-emptions "
            "(switches at blocking points are free)%s.  BUSY: every worker held by a long-running task, then one of {resize 0/1/2, shutdown (cancel / "
            "keep), add} and one more operation, 1 pre-emption, %s."
            % (("", "2 workers (without 'resize to 0, then to 3', which is in the thorough tier)") if tier == "quick" else
               ("; programs of exactly 3 operations with 1 pre-emption (1..2 workers) and of <= 2 operations with 3 workers and 1 pre-emption",
                "2 and 3 workers (a final resize to 3 only with 2 workers); the 3-operation program resize 0, resize 3, X with 2 workers is left out (cost)")))


HEAVY_FIRST = ("BUSY:W3:resize0", "BUSY:W2:resize0:op_last=7", ":n3:op1=4", "resize0:n3", "resize3:op1=1", "resize3", "add_follow")
OPS = ("add", "add_follow", "add_gated", "release", "resize0", "resize1", "resize2", "resize3", "shutdown_cancel", "shutdown_keep")


def jobs(tier):
    js = []
    for w in (1, 2):
        for first in OPS:
            js.append(dict(name="W%d:%s" % (w, first), workers=w, first=first, nops=2, P=2))
    # all workers busy with long-running tasks while the pool is resized / shut down twice
    for w in ((2,) if tier == "quick" else (2, 3)):
        for third in ("resize0", "resize1", "resize2", "shutdown_cancel", "shutdown_keep", "add"):
            js.append(dict(name="BUSY:W%d:%s" % (w, third), workers=w, prefix=["add_gated"] * w + [third], nops=1, P=1))
    js = common.shard(js, "op1", len(OPS), lambda j: "prefix" not in j and (j["workers"] == 2 or j["first"].startswith("resize")))
    js = common.shard(js, "op_last", len(OPS), lambda j: "prefix" in j)
    # five or more worker threads at once (all workers busy, resize to 0, then resize to 3) cost ~130 000 schedules: thorough tier, two workers only
    grow = ":resize0:op_last=%d" % OPS.index("resize3")
    js = [j for j in js if not (j["name"].endswith(grow) and (tier == "quick" or j["workers"] > 2))]
    if tier == "thorough":
        # programs of exactly three operations with one pre-emption (three operations with two pre-emptions ran into > 10 CPU-hours), and three
        # workers with two operations
        more = []
        for w in (1, 2):
            for first in OPS:
                more.append(dict(name="W%d:%s:n3" % (w, first), workers=w, first=first, nops=3, P=1, force={"n": 2}))
        for first in OPS:
            more.append(dict(name="W3:%s" % first, workers=3, first=first, nops=2, P=1))
        more = common.shard(more, "op1", len(OPS))
        js += more
        # growing to three workers on top of stopping / busy ones (five or more threads alive): 300 000+ schedules per program, outside the tier
        r3 = OPS.index("resize3")
        js = [j for j in js if not (j["name"].startswith("BUSY:W3") and j["name"].endswith("op_last=%d" % r3))
              and j["name"] != "W2:resize0:n3:op1=%d" % r3]
    return js


def make_inputs(job):
    eng = E()
    if "prefix" in job:
        prog = list(job["prefix"])
        prog.append(OPS[eng.choose(len(OPS), "op_last")])
    else:
        n = 1 + eng.choose(job["nops"], "n")
        prog = [job["first"]]
        for i in range(1, n):
            prog.append(OPS[eng.choose(len(OPS), "op%d" % i)])
    if not any(o.startswith("add") for o in prog):
        raise PathAbort()
    return dict(workers=job["workers"], prog=prog, P=job["P"])


class RecDeque(deque):
    def __init__(self, log):
        deque.__init__(self)
        self.log = log

    def popleft(self):
        x = deque.popleft(self)
        self.log.append(("pop", x.tid))
        return x

    def append(self, x):
        self.log.append(("put", x.tid))
        deque.append(self, x)


def scenario(ns, inp):
    T = ns.task
    T.threading = sched.ThreadingShim
    T.time = env.CLOCK
    env.CLOCK.now = 1700000000.0
    s = sched.Sched(bound=inp["P"], max_steps=6000)
    sched.install(s)
    ledger = {}
    order = []
    pops = []
    state = dict(shutdown_started=False, next=0, requested=inp["workers"], shutdown_mode=None)
    try:
        d = T.ThreadedTaskDispatcher()
        d.queue = RecDeque(pops)

        class Task:
            def __init__(self, follow, gated=False):
                self.tid = state["next"]
                state["next"] += 1
                self.follow = follow
                self.gated = gated
                ledger[self.tid] = dict(service=0, cancel=0, before_shutdown=not state["shutdown_started"])
                order.append(self.tid)

            def service(self):
                ledger[self.tid]["service"] += 1
                if self.gated:
                    # a long-running task: keeps its worker busy until the controller releases it
                    sched.block_until(lambda: state.get("released", False), "task.gated")
                if self.follow:
                    d.add_task(Task(False))

            def cancel(self):
                ledger[self.tid]["cancel"] += 1

        def controller():
            d.set_thread_count(inp["workers"])
            for op in inp["prog"]:
                if op == "add":
                    d.add_task(Task(False))
                elif op == "add_follow":
                    d.add_task(Task(True))
                elif op == "add_gated":
                    d.add_task(Task(False, gated=True))
                elif op == "release":
                    state["released"] = True
                elif op.startswith("resize"):
                    c = int(op[-1])
                    state["requested"] = c
                    d.set_thread_count(c)
                else:
                    state["shutdown_started"] = True
                    state["shutdown_mode"] = op
                    state["requested"] = 0
                    d.shutdown(cancel_pending=(op == "shutdown_cancel"), timeout=0.35)

        s.spawn(controller, "ctl")
        s.run()
        if not state.get("released"):
            # end of the history: long-running tasks finish
            state["released"] = True
            s.run()
        live_workers = [n for n in s.live() if n != "ctl"]
        obs = dict(ledger=sorted((k, v["service"], v["cancel"], v["before_shutdown"]) for k, v in ledger.items()), order=order, pops=pops,
                   queued=[t.tid for t in d.queue], live=sorted(live_workers), ctl_done="ctl" not in s.live(),
                   nthreads=len(d.threads), stop_count=d.stop_count, active=d.active_count, requested=state["requested"],
                   shutdown=state["shutdown_mode"], exc=list(s.thread_exceptions), preempt=s.preempt)
    finally:
        s.killall()
        sched.install(None)
    return obs


def oracle(inp, obs):
    out = [("no thread dies with an exception (%r)" % (obs["exc"],), not obs["exc"]),
           ("the controller's calls return (no deadlock): quiescent with the controller finished", obs["ctl_done"])]
    queued = set(obs["queued"])
    for tid, nserv, ncanc, before in obs["ledger"]:
        out.append(("task %d: never serviced twice, cancelled twice, or both serviced and cancelled" % tid, nserv + ncanc <= 1))
        if tid in queued:
            out.append(("task %d: a task still queued has neither run nor been cancelled" % tid, nserv + ncanc == 0))
            legit = obs["requested"] == 0 and obs["shutdown"] != "shutdown_cancel" or not before
            out.append(("task %d: may remain queued only when no worker is wanted and shutdown did not cancel pending work" % tid, legit))
        elif before:
            out.append(("task %d: submitted before shutdown -> executed exactly once or cancelled exactly once" % tid, nserv + ncanc == 1))
    submitted = [t for k, t in obs["pops"] if k == "put"]
    popped = [t for k, t in obs["pops"] if k == "pop"]
    out.append(("tasks are handed out in submission order (put %r, handed out %r)" % (submitted, popped), popped == submitted[:len(popped)]))
    out.append(("the number of workers converges to the requested one (%d requested, threads=%d stop_count=%d live=%d)" % (
        obs["requested"], obs["nthreads"], obs["stop_count"], len(obs["live"])),
        obs["nthreads"] - obs["stop_count"] == obs["requested"] and len(obs["live"]) == obs["requested"] and obs["stop_count"] == 0))
    if obs["shutdown"] is not None and obs["requested"] == 0:
        out.append(("after shutdown no idle worker remains", len(obs["live"]) == 0))
    return out


def goals(cin, cobs):
    out = []
    for tid, nserv, ncanc, before in cobs["ledger"]:
        if nserv:
            out.append("task serviced")
        if ncanc:
            out.append("task cancelled by shutdown")
    if cobs["queued"] and cobs["shutdown"] == "shutdown_keep":
        out.append("task left queued by shutdown(cancel_pending=False)")
    if any(o.startswith("resize") for o in cin["prog"]) and len(cobs["live"]) < cin["workers"]:
        out.append("worker stopped by resize")
    if "add_follow" in cin["prog"] and len(cobs["order"]) > sum(1 for o in cin["prog"] if o.startswith("add")):
        out.append("follow-up task submitted from a task body")
    if cobs["preempt"]:
        out.append("pre-empted schedule explored")
    return out


def normalize(obs):
    return obs


def replay(rep, inputs):
    W, _ = common.namespaces()
    choices = inputs.pop("__schedule__", [])
    with ReplayEngine(choices) as eng:
        obs = scenario(W, inputs)
        failed = [label for label, c in oracle(inputs, obs) if not c]
    return failed, obs
