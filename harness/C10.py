"""C10 Framing-critical tokens are accepted exactly per grammar, at any length.

Layer LANG (no length bound): each gate's compiled pattern object is taken from the imported module,
translated (sre parse tree -> z3 regular expression, python semantics of ^ $ \\Z and of the applying
method, which is read from the call site's AST) and compared with the ABNF written independently;
z3's sequence/regex theory decides L(impl) & P <= L(spec) and L(spec) & P <= L(impl), P being what can
reach the gate.  Layer SITE (bounded): the real call sites are executed on fully symbolic lines and
compared with the RFC 9112 reference, which shows that P is what reaches the gate, that pre-stripping
is SP/HTAB only, and that the numeric conversion after the gate yields the intended number."""
import ast
import os
import time

from harness import common, framing, streams
from refs import http_req
from wsx import loader
from wsx.core import E
from wsx.data import SymBytes

PROPERTY = "C10"
BUDGET = {"quick": 600, "thorough": 2400}
namespaces = common.namespaces
real_namespace = common.real_namespace
GOALS = ["content-length accepted", "chunk size accepted", "chunk extension accepted", "header line accepted", "request line accepted",
         "refused 400"]
ASSUMPTIONS = ["LANG layer: P (what reaches each gate) is stated per gate below and is itself checked by the SITE layer within its bound",
               "magnitude refusals (413, 4300-digit conversion limit) belong to C06"]
STUBS = ["as C01"]
CH = streams.CH

# gate -> (module basename, pattern variable).  The method is read from the call site.
GATES = {
    "content-length": ("parser", "ONLY_DIGIT_RE"),
    "chunk-size": ("receiver", "ONLY_HEXDIG_RE"),
    "chunk-ext": ("receiver", "CHUNK_EXT_RE"),
    "header-line": ("parser", "HEADER_FIELD_RE"),
    "request-line": ("parser", "first_line_re"),
}


def BOUNDS(tier):
    n = 4 if tier == "quick" else 5
    return ("LANG: all byte strings of every length (regular-language inclusion, both directions, 5 gates); if z3 answers unknown the query "
            "is repeated with |s| <= 64 and that bound is reported.  SITE: every byte string of length <= %d as Content-Length value, "
            "chunk-size line, chunk extension, header line, method, request-target and version, through the real parser / receiver." % n)


def call_site_methods():
    """{(module, pattern name): set of methods applied} read from the current source"""
    out = {}
    for mod in ("parser", "receiver"):
        src = open(os.path.join(loader.SRC, mod + ".py")).read()
        for node in ast.walk(ast.parse(src)):
            if isinstance(node, ast.Call) and isinstance(node.func, ast.Attribute) and isinstance(node.func.value, ast.Name):
                if node.func.attr in ("match", "fullmatch", "search"):
                    out.setdefault((mod, node.func.value.id), set()).add(node.func.attr)
    return out


# ---------------------------------------------------------------------------------------------- LANG layer
def _spec_regexes():
    import z3
    from wsx import rx
    U, C, R, L = rx.union, rx.concat, rx.rng, rx.lit
    tchar = U([L(c) for c in b"!#$%&'*+-.^_`|~"] + [R(48, 57), R(65, 90), R(97, 122)])
    token = z3.Plus(tchar)
    obs = R(0x80, 0xFF)
    vchar = R(0x21, 0x7E)
    fv = U([vchar, obs])
    wsp = U([L(32), L(9)])
    ows = z3.Star(wsp)
    field_value = z3.Option(C([fv, z3.Option(C([z3.Star(U([wsp, fv])), fv]))]))
    qdtext = U([L(9), L(32), L(0x21), R(0x23, 0x5B), R(0x5D, 0x7E), obs])
    qpair = C([L(92), U([L(9), L(32), vchar, obs])])
    qs = C([L(34), z3.Star(U([qdtext, qpair])), L(34)])
    ext = z3.Star(C([L(59), token, z3.Option(C([L(61), U([token, qs])]))]))
    digit = R(48, 57)
    hexd = U([R(48, 57), R(65, 70), R(97, 102)])
    method = z3.Plus(U([L(c) for c in b"!#$%&'*+-.^_`|~"] + [R(48, 57), R(65, 90)]))  # token without lower-case (documented)
    version = C([L(c) for c in b"HTTP/"] + [digit, L(46), digit])
    tgt_low = z3.Plus(vchar)
    tgt_high = z3.Plus(U([vchar, obs]))
    no_crlf_byte = z3.Star(U([R(0, 9), R(11, 12), R(14, 255)]))
    no_crlf_pair = z3.Complement(C([z3.Star(rx.ALL), L(13), L(10), z3.Star(rx.ALL)]))
    not_ws_edge = z3.Complement(U([C([wsp, z3.Star(rx.ALL)]), C([z3.Star(rx.ALL), wsp])]))
    not_ws0_end = z3.Complement(C([z3.Star(rx.ALL), U([L(c) for c in (32, 9, 11, 12, 13, 10)])]))
    no_semi = z3.Star(U([R(0, 58), R(60, 255)]))
    nonempty = z3.Plus(rx.ALL)
    return {
        # gate: (spec_low, spec_high, P, description of P)
        "content-length": (z3.Plus(digit), z3.Plus(digit), z3.Intersect(no_crlf_byte, not_ws_edge),
                           "header values: no CR / LF (bare CR/LF pre-check), SP/HTAB stripped at both ends"),
        "chunk-size": (z3.Plus(hexd), z3.Plus(hexd), z3.Intersect(no_crlf_pair, no_semi, nonempty),
                       "control line up to the first CRLF, cut at the first ';', non-empty"),
        "chunk-ext": (ext, ext, z3.Intersect(no_crlf_pair, C([L(59), z3.Star(rx.ALL)])),
                      "rest of the control line from the first ';'"),
        "header-line": (C([token, L(58), ows, field_value, ows]), C([token, L(58), ows, field_value, ows]), z3.Intersect(no_crlf_byte, nonempty),
                        "header lines after CRLF splitting and the bare CR/LF pre-check"),
        "request-line": (C([method, L(32), tgt_low, z3.Option(C([L(32), version]))]), C([method, L(32), tgt_high, z3.Option(C([L(32), version]))]),
                         z3.Intersect(no_crlf_byte, not_ws0_end),
                         "first line: no CR / LF, trailing whitespace stripped; method without lower-case letters (documented restriction); "
                         "obs-text in the target may be accepted or refused"),
    }


def run_custom(job, tier, deadline, known_ids):
    import z3
    from wsx import rx
    W, P = namespaces()
    t0 = time.time()
    gate = job["gate"]
    mod, var = GATES[gate]
    res = dict(stats=dict(paths=0, aborted=0, decisions=0, forks=0, solver_calls=0, solver_time=0.0, unknown=0), violations=[],
               unsupported=[], goals={}, samples=[], concolic=0, mismatches=[], extra={})
    methods = call_site_methods().get((mod, var))
    if not methods:
        res["unsupported"].append("no call site applies %s.%s: the gate cannot be located in the source" % (mod, var))
        return res
    pat = getattr(getattr(W, mod), var)
    real = getattr(pat, "real", pat)
    low, high, pre, pdesc = _spec_regexes()[gate]
    for method in sorted(methods):
        impl = rx.language(real, method)
        if gate == "request-line":
            # crack_first_line refuses methods with lower-case letters after the match: intersect
            nosp = z3.Star(rx.not_in(rx.lit(32)))
            lower_method = rx.concat([nosp, rx.rng(97, 122), nosp, rx.lit(32), z3.Star(rx.ALL)])
            impl = z3.Intersect(impl, z3.Complement(lower_method))
        for side, a, b in (("impl-minus-spec", impl, high), ("spec-minus-impl", low, impl)):
            t = time.time()
            r, w = rx.decide_inclusion(a, b, pre)
            bound = None
            if r == "unknown":
                r, w = rx.decide_inclusion(a, b, pre, maxlen=64)
                bound = 64
            res["stats"]["solver_calls"] += 1
            res["stats"]["solver_time"] += time.time() - t
            res["stats"]["paths"] += 1
            res["stats"]["decisions"] += 1
            res["samples"].append(dict(job=job["name"], inputs=dict(gate=gate, method=method, side=side, P=pdesc, length_bound=bound), observation=r))
            if r == "unknown":
                res["stats"]["unknown"] += 1
                res["unsupported"].append("z3 unknown on %s %s" % (gate, side))
            elif r == "sat":
                from wsx.runner import enc
                res["violations"].append(dict(label="%s: %s is not empty (pattern %s applied with .%s)" % (gate, side, var, method),
                                              inputs=enc(dict(kind="LANG", gate=gate, side=side, witness=w)), detail=repr(w)))
            else:
                res["goals"]["%s accepted" % {"content-length": "content-length", "chunk-size": "chunk size", "chunk-ext": "chunk extension",
                                              "header-line": "header line", "request-line": "request line"}[gate]] = 1
    res["nviol"] = len(res["violations"])
    return res


def _spec_accepts(gate, w):
    """independent recogniser on concrete bytes -> (low, high)"""
    c = list(w)
    if gate == "content-length":
        r = len(c) > 0 and all(48 <= x <= 57 for x in c)
        return r, r
    if gate == "chunk-size":
        r = len(c) > 0 and all(x in http_req.HEXDIGS for x in c)
        return r, r
    if gate == "chunk-ext":
        r = bool(http_req.valid_chunk_ext(c))
        return r, r
    if gate == "header-line":
        if 13 in c or 10 in c:
            return False, False
        ok, _, _ = http_req.parse_field_line(w)
        return bool(ok), bool(ok)
    if gate == "request-line":
        lo = http_req._parse_request_line(w, http_req.Cfg(strict_target_ctl=True))
        return (lo is not None and lo != "any"), (lo is not None)
    raise KeyError(gate)


def _impl_accepts(ns, gate, w):
    mod, var = GATES[gate]
    pat = getattr(getattr(ns, mod), var)
    methods = sorted(call_site_methods()[(mod, var)])
    ok = all(getattr(pat, m)(w) is not None for m in methods)
    if ok and gate == "request-line":
        try:
            ns.parser.crack_first_line(w)
        except ns.parser.ParsingError:
            ok = False
    return ok


# ---------------------------------------------------------------------------------------------- SITE layer
SITE = {
    "cl": (b"POST / HTTP/1.1\r\nContent-Length:", b"\r\n\r\nabcdefghGET /2 HTTP/1.1\r\n\r\n"),
    "chunksize": (b"POST / HTTP/1.1\r\n" + CH + b"\r\n", b"\r\nabcdefgh\r\n0\r\n\r\n"),
    "chunkext": (b"POST / HTTP/1.1\r\n" + CH + b"\r\n1;", b"\r\nx\r\n0\r\n\r\n"),
    "header": (b"GET / HTTP/1.1\r\n", b"\r\n\r\n"),
    "method": (b"", b" / HTTP/1.1\r\n\r\n"),
    "target": (b"GET ", b" HTTP/1.1\r\n\r\n"),
    "version": (b"GET / ", b"\r\n\r\n"),
}


def jobs(tier):
    js = [dict(name="LANG:%s" % g, custom=True, gate=g) for g in GATES]
    nmax = 4 if tier == "quick" else 5
    for site in SITE:
        top = nmax
        if site == "version":
            top = min(nmax + 4, 9) if tier == "thorough" else 8
        if site == "target":
            top = 3 if tier == "quick" else 4
        for n in range(1, top + 1):
            if site == "version" and n not in (1, 2, 7, 8, 9):
                continue
            js.append(dict(name="SITE:%s:n%d" % (site, n), site=site, n=n))
    return js


def make_inputs(job):
    pre, post = SITE[job["site"]]
    v = SymBytes.fresh(job["n"], "v")
    if job["site"] == "version" and job["n"] >= 7:
        # keep "HTTP/" concrete for the long forms so that the bound reaches the digits
        v = SymBytes(list(b"HTTP/") + SymBytes.fresh(job["n"] - 5, "v").c)
    return {"kind": "SITE", "stream": pre + v + post}


def scenario(ns, inputs):
    if inputs["kind"] == "LANG":
        return dict(impl=_impl_accepts(ns, inputs["gate"], inputs["witness"]))
    return framing.impl_events(ns, [inputs["stream"]])


def oracle(inputs, obs):
    if inputs["kind"] == "LANG":
        lo, hi = _spec_accepts(inputs["gate"], inputs["witness"])
        if inputs["side"] == "impl-minus-spec":
            return [("%s: %r is accepted by the implementation's gate but is not in the grammar" % (inputs["gate"], inputs["witness"]),
                     not (obs["impl"] and not hi))]
        return [("%s: %r is in the grammar but refused by the implementation's gate" % (inputs["gate"], inputs["witness"]),
                 not (lo and not obs["impl"]))]
    ref = framing.reference(inputs["stream"], strict_target_ctl=True)
    return framing.compare(obs, ref)


def normalize(obs):
    if "impl" in obs:
        return obs["impl"]
    return framing.norm_obs(obs)


def goals(cin, cobs):
    out = []
    if "events" in cobs:
        for e in cobs["events"]:
            if e[0] == "err":
                out.append("refused %d" % e[1])
    return out
