"""Backtracking blow-up of the real compiled patterns ('no input makes the parsing code hang', C06).

python's re is a backtracking matcher: a repeated group whose iterations can split one piece of text in more than one way (or an
alternation, under a repeat, whose branches match the same text) is explored in exponentially many ways when the rest of the match
fails.  For every compiled pattern object that the request path uses (taken from the imported modules, i.e. from the current source)
the sre parse tree is walked and, for every repeat with an unbounded (or >= 8) upper count over a group R, z3's regular-expression
theory decides

    ITER : L(R) & L(R R+)   is empty   (no text is one iteration and also several iterations)
    ALT  : L(Ai) & L(Aj)    is empty   for all branches Ai, Aj (i < j) of every alternation below that repeat

Both are necessary for the group to match in one way only; a non-empty intersection comes with a witness w, which is replayed on the
real pattern object: subject = (text leading to the group) + w * k + (a byte that makes the match fail), for growing k, and the
violation is reported only if the measured matching time grows geometrically.  This is a sufficient-condition check for the two usual
shapes of catastrophic backtracking ((X+|Y)*, (X*)*, (X|X)*), not a complete decision of ambiguity; polynomial blow-ups (X*X*) are
outside it."""
import time

try:
    import re._parser as sp
    import re._constants as sc
except ImportError:  # pragma: no cover
    import sre_parse as sp
    import sre_constants as sc

MODULES = ("rfc7230", "parser", "receiver", "utilities", "proxy_headers", "task")
SINGLE = None


def patterns(ns):
    """{(module, variable): compiled pattern} for every module-level pattern object of the request path"""
    out = {}
    for mod in MODULES:
        m = getattr(ns, mod, None)
        if m is None:
            continue
        for name, v in sorted(vars(m).items()):
            real = getattr(v, "real", v)
            if hasattr(real, "pattern") and hasattr(real, "fullmatch"):
                out[(mod, name)] = real
    return out


def _single_char(sub):
    return len(sub) == 1 and sub[0][0] in (sc.LITERAL, sc.NOT_LITERAL, sc.IN, sc.ANY)


def repeats(tree, path=()):
    """yield (path, node) for every repeat node with a large upper bound over a body that is not a single character"""
    for i, (op, av) in enumerate(tree):
        here = path + (i,)
        if op in (sc.MAX_REPEAT, sc.MIN_REPEAT):
            lo, hi, sub = av
            if (hi is sc.MAXREPEAT or hi >= 8) and not _single_char(list(sub)):
                yield here, (op, av)
            yield from repeats(list(sub), here)
        elif op is sc.SUBPATTERN:
            yield from repeats(list(av[3]), here)
        elif op is sc.BRANCH:
            for k, alt in enumerate(av[1]):
                yield from repeats(list(alt), here + (k,))


def branches(tree):
    for op, av in tree:
        if op is sc.BRANCH:
            yield [list(a) for a in av[1]]
            for a in av[1]:
                yield from branches(list(a))
        elif op is sc.SUBPATTERN:
            yield from branches(list(av[3]))
        elif op in (sc.MAX_REPEAT, sc.MIN_REPEAT):
            yield from branches(list(av[2]))


def _lead_text(pat, path):
    """a text that takes the matcher to the repeat at `path`: a shortest member of the language of everything in front of it"""
    import z3
    from wsx import rx
    tree = list(sp.parse(pat.pattern, pat.flags & ~32 if isinstance(pat.pattern, bytes) else pat.flags))
    parts = []
    cur = tree
    for depth, idx in enumerate(path):
        if isinstance(cur, tuple):  # inside a BRANCH: idx selects the alternative
            cur = list(cur[idx])
            continue
        before = [o for o in cur[:idx] if o[0] is not sc.AT]
        if before:
            parts.append(rx._seq(before, False))
        op, av = cur[idx]
        if depth == len(path) - 1:
            break
        if op is sc.SUBPATTERN:
            cur = list(av[3])
        elif op in (sc.MAX_REPEAT, sc.MIN_REPEAT):
            cur = list(av[2])
        elif op is sc.BRANCH:
            cur = tuple(av[1])
    if not parts:
        return b""
    s = z3.String("lead")
    sol = z3.Solver()
    sol.set("timeout", 20000)
    sol.add(z3.InRe(s, rx.concat(parts)))
    best = None
    for n in range(0, 12):
        sol.push()
        sol.add(z3.Length(s) == n)
        if sol.check() == z3.sat:
            best = rx._z3str_to_bytes(sol.model()[s])
            sol.pop()
            break
        sol.pop()
    return best if best is not None else b""


def analyse(pat, timeout_ms=30000):
    """-> (queries, findings, unknowns); finding = dict(kind, witness, lead, where)"""
    import z3
    from wsx import rx
    tree = list(sp.parse(pat.pattern, pat.flags & ~32 if isinstance(pat.pattern, bytes) else pat.flags))
    nq, finds, unknown = 0, [], []
    for path, (op, av) in repeats(tree):
        lo, hi, sub = av
        sub = list(sub)
        R = rx._seq([o for o in sub if o[0] is not sc.AT], False)
        s = z3.String("w")
        checks = [("ITER", [z3.InRe(s, R), z3.InRe(s, z3.Concat(R, z3.Plus(R))), z3.Length(s) > 0])]
        for alts in branches(sub):
            regs = [rx._seq([o for o in a if o[0] is not sc.AT], False) for a in alts]
            for i in range(len(regs)):
                for j in range(i + 1, len(regs)):
                    checks.append(("ALT", [z3.InRe(s, regs[i]), z3.InRe(s, regs[j]), z3.Length(s) > 0]))
        for kind, cons in checks:
            sol = z3.Solver()
            sol.set("timeout", timeout_ms)
            sol.add(*cons)
            nq += 1
            r = sol.check()
            if r == z3.sat:
                w = rx._z3str_to_bytes(sol.model()[s])
                finds.append(dict(kind=kind, witness=w, lead=_lead_text(pat, path), where="repeat at %r" % (path,)))
            elif r != z3.unsat:
                unknown.append("%s at %r" % (kind, path))
    return nq, finds, unknown


def measure(pat, lead, w, limit_s=0.3):
    """matching time of lead + w*k + fail-byte on the real pattern for growing k -> list of (k, seconds)"""
    if isinstance(pat.pattern, str):
        lead, w, bad = lead.decode("latin-1"), w.decode("latin-1"), "\x00"
    else:
        bad = b"\x00"
    out = []
    k = 4
    while k <= 64:
        subj = lead + w * k + bad
        t = time.perf_counter()
        pat.match(subj)
        dt = time.perf_counter() - t
        out.append((k, dt))
        if dt > limit_s:
            break
        k += 2
    return out


def geometric(times):
    """does the time grow by a constant factor per step once it is measurable?"""
    big = [(k, t) for k, t in times if t > 0.002]
    if len(big) < 3:
        return False
    ratios = [big[i + 1][1] / big[i][1] for i in range(len(big) - 1)]
    return min(ratios[-2:]) >= 1.7 and big[-1][1] > 0.2
