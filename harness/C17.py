"""C17 Buffers are faithful byte queues across all representation changes."""
import io

from harness import common
from wsx import env, loader, rope
from wsx.core import E, PathAbort, SymInt, s_and, sym_equal, conc
from wsx.rope import Rope, RopeFile

PROPERTY = "C17"
BUDGET = {"quick": 900, "thorough": 3000}
real_namespace = common.real_namespace
GOALS = ["plain-bytes representation", "in-memory file representation", "temporary-file representation", "migration with unread data",
         "peek shorter than the queue", "consume exactly the queue", "read-only buffer clamped to the prepared size"]
ASSUMPTIONS = [
    "operations are those the server issues: append, get (peek), get(skip=True), skip(n) with n <= the length of the preceding peek, len, getfile() "
    "+ read as the last operation, close; prune() is outside the quantifier (property text)",
    "every size is a symbolic integer in [0, 300000], the overflow threshold in [0, 600000]; STRBUF_LIMIT (8192) and COPY_BYTES (262144) are the "
    "real module constants - all threshold relations are decided by linear integer arithmetic",
    "data content is a reference stream tracked by position (rope segments): order, loss and duplication are decided exactly, byte values are not symbolic",
]
STUBS = ["io.BytesIO / tempfile.TemporaryFile (RopeFile: append-only write, read, seek, tell over ropes)"]
OPS = ("append", "peek", "take", "peekskip", "len")
MAXN = 300000


def namespaces():
    W, P = common.namespaces()
    W.buffers.BytesIO = rope.RopeBytesIO
    loader.IMPORT_SHIMS["tempfile"].TemporaryFile = rope.RopeTemporaryFile
    return W, P


def BOUNDS(tier):
    return ("operation histories of length <= %d over %r (+ a final getfile-read or close) on OverflowableBuffer with symbolic sizes and a symbolic "
            "overflow threshold; ReadOnlyFileBasedBuffer over a file of symbolic length, start position and prepared size with <= 3 peek/consume "
            "steps and block iteration." % (4 if tier == "quick" else 5, OPS))


def jobs(tier):
    n = 4 if tier == "quick" else 5
    js = []
    for a in OPS:
        for b in OPS:
            js.append(dict(name="OB:append:%s:%s" % (a, b), fam="OB", prefix=["append", a, b], n=n))
    for mode in ("getskip", "iterate"):
        js.append(dict(name="RO:%s" % mode, fam="RO", mode=mode))
    js = common.shard(js, "end", 3, lambda j: j["fam"] == "OB")
    return js


def make_inputs(job):
    eng = E()
    if job["fam"] == "OB":
        hist = list(job["prefix"])
        extra = eng.choose(job["n"] - len(hist) + 1, "len")
        for i in range(extra):
            hist.append(OPS[eng.choose(len(OPS), "op%d" % i)])
        hist.append(("end", "getfile", "close")[eng.choose(3, "end")])
        sizes = [eng.fresh_int("n%d" % i, 0, MAXN) for i in range(len(hist))]
        overflow = eng.fresh_int("overflow", 0, 2 * MAXN)
        return dict(fam="OB", hist=hist, sizes=sizes, overflow=overflow)
    L = eng.fresh_int("filelen", 0, MAXN)
    p0 = eng.fresh_int("startpos", 0, MAXN)
    eng.assume(p0 <= L)
    has_size = bool(eng.choose(2, "hassize"))
    size = eng.fresh_int("size", 0, MAXN) if has_size else None
    steps = [eng.fresh_int("k%d" % i, 0, 70000) for i in range(3)]
    sent = [eng.fresh_int("s%d" % i, 0, 70000) for i in range(3)]
    return dict(fam="RO", mode=job["mode"], L=L, p0=p0, size=size, steps=steps, sent=sent)


# ------------------------------------------------------------------------------------------------ scenario
def _data(ns, start, n):
    """n bytes of the reference stream from position start: a rope (symbolic run) or real bytes"""
    if getattr(ns, "_is_instrumented", False):
        return Rope([(start, n)])
    return rope.stream_bytes(start, n)


def _sxlen(x):
    f = getattr(x, "__sx_len__", None)
    return f() if f is not None else len(x)


def _desc(x, sym):
    """observation of a piece of data: (length, first stream position or -1) for ropes; bytes otherwise"""
    return x


def scenario(ns, inp):
    sym = getattr(ns, "_is_instrumented", False)
    B = ns.buffers
    log = []
    if inp["fam"] == "OB":
        buf = B.OverflowableBuffer(inp["overflow"])
        appended = 0
        lastpeek = None
        for op, n in zip(inp["hist"], inp["sizes"]):
            if op == "append":
                buf.append(_data(ns, appended, n))
                appended = appended + n
                log.append(("append", n))
            elif op == "peek":
                r = buf.get(n)
                lastpeek = r
                log.append(("peek", n, r))
            elif op == "take":
                r = buf.get(n, True)
                log.append(("take", n, r))
            elif op == "peekskip":
                r = buf.get(n)
                k = _sxlen(r)
                # the server skips what send() accepted: any amount up to the peeked length; take half (+1)
                m = (k + 1) // 2 if not isinstance(k, SymInt) else (k + 1) // 2
                buf.skip(m, True)
                log.append(("peekskip", n, r, m))
            elif op == "len":
                log.append(("len", buf.__len__()))
            elif op == "getfile":
                f = buf.getfile()
                log.append(("getfile", f.read()))
            elif op == "close":
                buf.close()
                log.append(("close", buf.__len__() if buf.buf is not None else None))
            else:
                log.append(("end",))
        rep = "tempfile" if buf.overflowed else ("file" if buf.buf is not None else "bytes")
        return dict(log=log, rep=rep, exc=None)
    # read-only buffer
    if sym:
        f = RopeFile()
        f.write(Rope([(0, inp["L"])]))
    else:
        f = io.BytesIO(rope.stream_bytes(0, inp["L"]))
    f.seek(inp["p0"])
    ro = B.ReadOnlyFileBasedBuffer(f, 32768)
    prepared = ro.prepare(inp["size"])
    log.append(("prepare", prepared))
    if inp["mode"] == "getskip":
        for k, s in zip(inp["steps"], inp["sent"]):
            r = ro.get(k)
            n = _sxlen(r)
            m = s if bool(s <= n) else n
            ro.skip(m, True)
            log.append(("get", k, r, m, f.tell(), ro.remain))
    else:
        for i in range(3):
            try:
                r = ro.__next__()
            except StopIteration:
                log.append(("stop",))
                break
            log.append(("next", r, f.tell()))
    return dict(log=log, rep="readonly", exc=None)


# ------------------------------------------------------------------------------------------------ oracle
def _is(data, start):
    """data denotes the reference stream from `start` (for its own length)"""
    if isinstance(data, Rope):
        return data.denotes(start)
    n = len(data)
    if n == 0:
        return True
    if isinstance(start, SymInt):
        raise AssertionError("concrete data with a symbolic position")
    return bytes(data) == rope.stream_bytes(start, n)


def oracle(inp, obs):
    out = []
    log = obs["log"]
    if inp["fam"] == "OB":
        appended = 0
        consumed = 0
        for ent in log:
            q = appended - consumed
            if ent[0] == "append":
                appended = appended + ent[1]
            elif ent[0] in ("peek", "take", "peekskip"):
                n, r = ent[1], ent[2]
                ln = _sxlen(r)
                out.append(("%s returns a prefix of the queued bytes, in order and unmodified" % ent[0], _is(r, consumed)))
                out.append(("%s returns at least min(n, queued) bytes and no more than is queued" % ent[0],
                            s_and(ln <= q, (ln >= n) | (ln == q))))
                if ent[0] == "take":
                    consumed = consumed + ln
                elif ent[0] == "peekskip":
                    consumed = consumed + ent[3]
            elif ent[0] == "len":
                out.append(("length equals bytes appended minus bytes consumed", ent[1] == q))
            elif ent[0] == "getfile":
                out.append(("the file view yields exactly the queued bytes", s_and(_is(ent[1], consumed), _sxlen(ent[1]) == q)))
            elif ent[0] == "close":
                pass
        return out
    # read-only
    L, p0, size = inp["L"], inp["p0"], inp["size"]
    fsize = L - p0
    want = fsize if size is None else (size if bool(size <= fsize) else fsize)
    out.append(("prepare() announces min(remaining file size, requested size)", log[0][1] == want))
    pos = p0
    given = 0
    for ent in log[1:]:
        if ent[0] == "get":
            _, k, r, m, tell, remain = ent
            ln = _sxlen(r)
            out.append(("a peek yields file data from the current position", _is(r, pos)))
            out.append(("a peek never yields more than what remains of the prepared size", ln <= want - given))
            out.append(("a peek yields min(requested, remaining) bytes", (ln == k) | (ln == want - given)))
            pos = pos + m
            given = given + m
            out.append(("after consuming, the wrapped file is positioned right behind the consumed bytes", tell == pos))
            out.append(("remaining size is the prepared size minus the consumed bytes", remain == want - given))
        elif ent[0] == "next":
            _, r, tell = ent
            ln = _sxlen(r)
            out.append(("iteration yields consecutive file data", _is(r, pos)))
            pos = pos + ln
            out.append(("the file position follows the iteration", tell == pos))
    return out


def normalize(obs):
    def n(x):
        if isinstance(x, (list, tuple)):
            return tuple(n(y) for y in x)
        if isinstance(x, (bytearray, memoryview)):
            return bytes(x)
        return x
    return n((obs["log"], obs["rep"]))


def goals(cin, cobs):
    out = []
    out.append({"bytes": "plain-bytes representation", "file": "in-memory file representation", "tempfile": "temporary-file representation",
                "readonly": "read-only buffer clamped to the prepared size"}[cobs["rep"]])
    if cin["fam"] == "OB":
        appended = consumed = 0
        for ent in cobs["log"]:
            q = appended - consumed
            if ent[0] == "append":
                if q > 0 and q < 8192 <= q + ent[1]:
                    out.append("migration with unread data")
                appended += ent[1]
            elif ent[0] in ("peek", "take", "peekskip"):
                ln = len(ent[2])
                if ln < q:
                    out.append("peek shorter than the queue")
                if ent[0] == "take":
                    consumed += ln
                    if ln == q and q > 0:
                        out.append("consume exactly the queue")
                elif ent[0] == "peekskip":
                    consumed += ent[3]
    return out
