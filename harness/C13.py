"""C13 Client faults are contained; teardown happens once, on the I/O thread only."""
import errno

from harness import common, hsys, C04, C03
from wsx.core import E

PROPERTY = "C13"
BUDGET = {"quick": 900, "thorough": 3000}
namespaces = hsys.namespaces
real_namespace = common.real_namespace
ERRNOS = (errno.ECONNRESET, errno.EPIPE, errno.ENOTCONN, errno.EBADF, errno.EINVAL, errno.EIO)
GOALS = ["fault on send in the worker", "fault on recv", "fault on accept", "fault while the connection is being set up", "peer vanished (EOF)",
         "bystander served", "faulted connection closed by the I/O thread"]
ASSUMPTIONS = ["faults are OSError with errno in %r raised by the simulated socket calls of the first connection (and by accept), plus EOF / peer "
               "vanished; at most k faults per run" % (ERRNOS,),
               "schedule granularity: lock / condition / socket / pipe / select operations"]
STUBS = C04.STUBS


def BOUNDS(tier):
    return ("two connections (the faulted one and a bystander), the faulted one sending one or two GET requests (two: %s); a symbolic fault variable on every accept / "
            "getsockopt / setsockopt / setblocking / recv / send call of the first connection (errno from 6 values) or EOF, at most %d fault(s); "
            "every interleaving with at most %d pre-emption(s); body 2 / 3000 bytes in two writes, outbuf_high_watermark default / 10 (then optionally "
            "followed by a 40-byte file through wsgi.file_wrapper, single-request case), log_socket_errors on / off, first send stalled or not."
            % (("errno EPIPE, EINVAL or EOF", 1, 1) if tier == "quick" else ("all six errno values or EOF", 2, 1)))


def jobs(tier):
    js = []
    for nreq in (1, 2):
        for err in ERRNOS:
            js.append(dict(name="F:%s:r%d" % (errno.errorcode[err], nreq), err=err, nreq=nreq,
                           k=2 if (tier == "thorough" and nreq == 1 and err in (errno.ECONNRESET, errno.EINVAL)) else 1, P=1))
        js.append(dict(name="EOF:r%d" % nreq, err=None, nreq=nreq, k=1, P=1))
    if tier == "quick":
        # two pipelined requests on the faulted connection: one errno of the "peer is gone" class and one other (all six in thorough)
        js = [j for j in js if j["nreq"] == 1 or j["err"] in (None, errno.EPIPE, errno.EINVAL)]
    js = common.shard(js, "body", 2, lambda j: j["err"] is not None)
    js = common.shard(js, "wm", 2, lambda j: j["err"] is not None)
    return js


def make_inputs(job):
    # the fault placement is chosen while the scenario runs (one free choice per socket call); it is reported in the observation
    eng = E()
    inp = dict(err=job["err"], nreq=job["nreq"], k=job["k"], P=job["P"], body=(2, 3000)[eng.choose(2, "body")],
               wm=(16777216, 10)[eng.choose(2, "wm")], logsock=bool(eng.choose(2, "logsock")), stall_first=bool(eng.choose(2, "stall")))
    # with a small watermark the response may end in a file handed over through wsgi.file_wrapper (a buffer that has to be released)
    inp["tail"] = bool(eng.choose(2, "tail")) if inp["wm"] == 10 and job["nreq"] == 1 else False
    return inp


def scenario(ns, inp):
    calls = []
    placed = []
    budget = [inp["k"]]

    files = []

    def app(environ, start_response):
        calls.append(environ["PATH_INFO"])
        tail = inp.get("tail") and environ["PATH_INFO"].startswith("/a")
        write = start_response("200 OK", [("Content-Length", str(inp["body"] + (40 if tail else 0)))])
        half = inp["body"] // 2
        write(b"x" * half)
        write(b"x" * (inp["body"] - half))
        if tail:
            f = C03._make_file(ns, b"f" * 40)
            files.append(f)
            return environ["wsgi.file_wrapper"](f, 16)
        return []

    def fault_hook(op, obj):
        if inp["err"] is None or budget[0] <= 0:
            return None
        if getattr(obj, "name", "") == "bystander":
            return None
        if E().choose_free(2):
            budget[0] -= 1
            placed.append((op, getattr(obj, "name", "listen"), obj.calls.get(op, 1) if hasattr(obj, "calls") else 0))
            if op in ("send", "recv") and inp["err"] in (errno.ECONNRESET, errno.EPIPE, errno.ENOTCONN, errno.EBADF):
                obj.peer_gone = True  # a reset / closed connection stays broken
            return inp["err"]
        return None

    sysm = hsys.System(ns, app, adj_kw=dict(threads=1, outbuf_high_watermark=inp.get("wm", 16777216), log_socket_errors=inp.get("logsock", True)),
                       P=inp["P"], yield_funcs=set(), fault_hook=fault_hook)
    try:
        data = b"".join(b"GET /a%d HTTP/1.1\r\n\r\n" % (i + 1) for i in range(inp["nreq"]))
        a = sysm.connect([data], name="victim")
        b = sysm.connect([b"GET /b HTTP/1.1\r\n\r\n"], addr=("10.0.0.2", 6000), name="bystander")
        if inp.get("stall_first"):
            # the victim's first send() would block (its send buffer is full), so output is pending when the fault strikes
            orig0 = a.send
            st0 = [True]

            def send0(d):
                if st0[0]:
                    st0[0] = False
                    a.accept = [0]
                return orig0(d)
            a.send = send0
        if inp["err"] is None:
            # the peer vanishes at a symbolic point: before anything is read, or once the first response bytes were sent
            when = E().choose_free(2)
            if when == 0:
                a.peer_gone = True
            else:
                orig = a.send

                def send(d):
                    a.peer_gone = True
                    a.send = orig
                    return orig(d)
                a.send = send
            placed.append(("eof", "victim", when))
        sysm.run()
        srv = sysm.srv
        obs = dict(placed=placed, calls=list(calls), exc=list(sysm.s.thread_exceptions), live=sorted(sysm.s.live()),
                   listener_in_map=sysm.listen.fd in sysm.map, listener_closed=sysm.listen.closed, accepting=bool(srv.accepting),
                   trigger_in_map=srv.trigger._fileno in sysm.map if srv.trigger._fileno is not None else False,
                   a_closed=a.closed, a_closed_by=list(a.closed_by), a_accepted=a not in [c for c, _ in sysm.listen.pending],
                   b_wire=bytes(b.wire()), b_closed=b.closed, spinning=sysm.s.spinning,
                   channels=len(sysm.channels()), blocked=sorted(sysm.s.blocked()), a_wire_len=len(a.wire()),
                   fclose=[getattr(f, "close_calls", None) if getattr(f, "close_calls", None) is not None else int(bool(f.closed)) for f in files])
    finally:
        sysm.close()
    return obs


def oracle(inp, obs):
    out = [("no thread dies with an exception (%r)" % (obs["exc"],), not obs["exc"]),
           ("the I/O loop is alive and not busy-polling", "io" in obs["live"] and not obs["spinning"]),
           ("the worker is alive", any(n.startswith("waitress-") for n in obs["live"])),
           ("the listening socket is still open, polled and accepting (faults placed: %r)" % (obs["placed"],),
            obs["listener_in_map"] and obs["listener_closed"] == 0 and obs["accepting"]),
           ("the wake-up pipe is still polled", obs["trigger_in_map"])]
    finals, interims, rest = C04.split(obs["b_wire"])
    out.append(("the other connection is served normally", len(finals) == 1 and rest == b"" and finals[0].endswith(b"x" * inp["body"]) and "/b" in obs["calls"]))
    out.append(("a connection is torn down at most once", obs["a_closed"] <= 1))
    out.append(("sockets are closed by the I/O thread only, never by a worker (closed by %r)" % (obs["a_closed_by"],), all(w == "io" for w in obs["a_closed_by"])))
    if obs["placed"] and obs["placed"][0][0] in ("recv", "send", "eof") and obs["a_accepted"]:
        # (a socket that never became a channel - error in accept or while applying socket_options - is dropped by the
        # server and released when the socket object is collected; the simulated socket cannot observe that)
        out.append(("a connection whose recv / send failed (or whose peer vanished) is torn down exactly once and its descriptor released (faults %r)" % (obs["placed"],),
                    obs["a_closed"] == 1))
    if obs["a_closed"] >= 1 and obs.get("fclose"):
        out.append(("the buffers of a torn-down connection are released: every file handed over through wsgi.file_wrapper is closed (close calls %r)" % (obs["fclose"],),
                    all(c >= 1 for c in obs["fclose"])))
    return out


def goals(cin, cobs):
    out = []
    for op, who, n in cobs["placed"]:
        if op == "send":
            out.append("fault on send in the worker")
        elif op == "recv":
            out.append("fault on recv")
        elif op == "accept":
            out.append("fault on accept")
        elif op in ("getsockopt", "setsockopt", "setblocking"):
            out.append("fault while the connection is being set up")
        elif op == "eof":
            out.append("peer vanished (EOF)")
    if b"200 OK" in cobs["b_wire"]:
        out.append("bystander served")
    if cobs["a_closed_by"] == ["io"]:
        out.append("faulted connection closed by the I/O thread")
    return out


def normalize(obs):
    return obs


def replay(rep, inputs):
    import harness.C13 as H
    return hsys.replay_with(H, inputs)
