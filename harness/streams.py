"""Input families shared by C01 / C02 / C06 / C07: skeleton corpus K and window placement (F1),
fully symbolic continuations (F2), numeric fields (F3)."""
from wsx.core import E
from wsx.data import SymBytes

CH = b"Transfer-Encoding: chunked\r\n"
K = {
    "get11": b"GET / HTTP/1.1\r\nHost: a\r\n\r\n",
    "get10q": b"GET /p?q=1#f HTTP/1.0\r\n\r\n",
    "get09": b"GET /x\r\n\r\n",
    "options": b"OPTIONS * HTTP/1.1\r\nHost: a\r\n\r\n",
    "absform": b"GET http://h:80/p HTTP/1.1\r\nHost: h\r\n\r\n",
    "cl": b"POST / HTTP/1.1\r\nContent-Length: 3\r\n\r\nabc",
    "cl_pipe": b"POST / HTTP/1.1\r\nContent-Length: 3\r\n\r\nabcGET /2 HTTP/1.1\r\n\r\n",
    "chunk1": b"POST / HTTP/1.1\r\n" + CH + b"\r\n3\r\nabc\r\n0\r\n\r\n",
    "chunk_ext_tr": b"POST / HTTP/1.1\r\n" + CH + b"\r\n1;x=y\r\na\r\n2;q=\"z\"\r\nbc\r\n0\r\nT: v\r\n\r\nGET /2 HTTP/1.1\r\n\r\n",
    "cl_te": b"POST / HTTP/1.1\r\nContent-Length: 3\r\n" + CH + b"\r\n1\r\na\r\n0\r\n\r\nGET /2 HTTP/1.1\r\n\r\n",
    "te10_ka": b"POST / HTTP/1.0\r\nConnection: keep-alive\r\n" + CH + b"Content-Length: 3\r\n\r\nabcGET /2 HTTP/1.0\r\n\r\n",
    "dup_cl": b"POST / HTTP/1.1\r\nContent-Length: 3\r\nContent-Length: 3\r\n\r\nabc",
    "list_cl": b"POST / HTTP/1.1\r\nContent-Length: 3, 3\r\n\r\nabc",
    "signed_cl": b"POST / HTTP/1.1\r\nContent-Length: +3\r\n\r\nabc",
    "te_gzip_chunked": b"POST / HTTP/1.1\r\nTransfer-Encoding: gzip, chunked\r\n\r\n0\r\n\r\n",
    "te_chunked2": b"POST / HTTP/1.1\r\nTransfer-Encoding: chunked, chunked\r\n\r\n0\r\n\r\n",
    "te_chunked_gzip": b"POST / HTTP/1.1\r\nTransfer-Encoding: chunked, gzip\r\n\r\n0\r\n\r\n",
    "te_padded": b"POST / HTTP/1.1\r\nTransfer-Encoding:  ,Chunked , \r\n\r\n1\r\nx\r\n0\r\n\r\n",
    "te_two_lines": b"POST / HTTP/1.1\r\n" + CH + CH + b"\r\n0\r\n\r\n",
    "obsfold": b"GET / HTTP/1.1\r\nX: a\r\n b\r\nY: c\r\n\r\n",
    "underscore": b"GET / HTTP/1.1\r\nX_Y: 1\r\nX-Y: 2\r\nX-Y: 3\r\n\r\n",
    "close_pipe": b"GET /1 HTTP/1.1\r\nConnection: close\r\n\r\nGET /2 HTTP/1.1\r\n\r\n",
    "ka10_pipe": b"GET /1 HTTP/1.0\r\nConnection: Keep-Alive\r\n\r\nGET /2 HTTP/1.0\r\n\r\n",
    "lead_crlf": b"\r\nGET / HTTP/1.1\r\n\r\n",
    "pipe3": b"GET /1 HTTP/1.1\r\n\r\nGET /2 HTTP/1.1\r\n\r\nGET /3 HTTP/1.1\r\n\r\n",
    "dup_host": b"GET / HTTP/1.1\r\nHost: a\r\nHost: b\r\n\r\n",
    "expect": b"POST / HTTP/1.1\r\nExpect: 100-continue\r\nContent-Length: 3\r\n\r\nabcGET /2 HTTP/1.1\r\n\r\n",
    "pct": b"GET /a%41 HTTP/1.1\r\nX-Rate: 100%\r\nX-Other: %s %d\r\n\r\n",
    "chunk_pipe": b"POST / HTTP/1.1\r\n" + CH + b"\r\n2\r\nab\r\n0\r\n\r\nGET /2 HTTP/1.1\r\n\r\n",
    "chunk_bigsize": b"POST / HTTP/1.1\r\n" + CH + b"\r\n00A\r\n0123456789\r\n0\r\n\r\n",
}
# skeletons whose parsing carries state across reads (used by the quick tier of C02)
CARRY = ("cl_pipe", "chunk1", "chunk_pipe", "chunk_ext_tr", "cl_te", "te10_ka", "pipe3", "lead_crlf", "obsfold", "chunk_bigsize")


def window_positions(sk, w, mode):
    n = len(sk)
    if mode == "subst":
        return list(range(0, n - w + 1))
    return list(range(0, n + 1))


def place_window(sk, w, mode, pos, name="w"):
    win = SymBytes.fresh(w, name)
    if mode == "subst":
        return sk[:pos] + win + sk[pos + w:]
    return sk[:pos] + win + sk[pos:]


def f1_jobs(names, w, modes=("subst", "insert"), per_job=12, extra=None):
    """split every (skeleton, mode) into jobs of `per_job` consecutive window positions"""
    jobs = []
    for nm in names:
        sk = K[nm]
        for mode in modes:
            pos = window_positions(sk, w, mode)
            for i in range(0, len(pos), per_job):
                j = dict(name="F1:%s:%s:w%d:%d-%d" % (nm, mode, w, pos[i], pos[min(i + per_job, len(pos)) - 1]),
                         family="F1", skeleton=nm, mode=mode, w=w, positions=pos[i:i + per_job])
                if extra:
                    j.update(extra)
                jobs.append(j)
    return jobs


def f1_stream(job):
    eng = E()
    sk = K[job["skeleton"]]
    positions = job["positions"]
    k = eng.choose(len(positions), "pos")
    return place_window(sk, job["w"], job["mode"], positions[k])


# F2: fully symbolic continuation after a fixed prefix
F2_PREFIX = {
    "chunked_body": b"POST / HTTP/1.1\r\n" + CH + b"\r\n",
    "in_chunk": b"POST / HTTP/1.1\r\n" + CH + b"\r\n2\r\na",
    "chunk_term": b"POST / HTTP/1.1\r\n" + CH + b"\r\n1\r\na",
    "trailer": b"POST / HTTP/1.1\r\n" + CH + b"\r\n0\r\n",
    "headers": b"GET / HTTP/1.1\r\n",
    "reqline": b"",
}
F2_SUFFIX = {"headers": b"\r\n\r\n", "reqline": b"\r\n\r\n"}


def f2_jobs(n_max, phases=None, extra=None):
    jobs = []
    for ph in (phases or F2_PREFIX):
        for n in range(1, n_max + 1):
            j = dict(name="F2:%s:n%d" % (ph, n), family="F2", phase=ph, n=n)
            if extra:
                j.update(extra)
            jobs.append(j)
    return jobs


def f2_stream(job):
    body = SymBytes.fresh(job["n"], "s")
    return F2_PREFIX[job["phase"]] + body + F2_SUFFIX.get(job["phase"], b"")


# F3: numeric fields
def f3_jobs(n_max, extra=None):
    jobs = []
    for kind in ("cl", "chunksize"):
        for n in range(1, n_max + 1):
            j = dict(name="F3:%s:n%d" % (kind, n), family="F3", kind=kind, n=n)
            if extra:
                j.update(extra)
            jobs.append(j)
    return jobs


def f3_stream(job):
    v = SymBytes.fresh(job["n"], "v")
    if job["kind"] == "cl":
        return b"POST / HTTP/1.1\r\nContent-Length:" + v + b"\r\n\r\nabcdefghijklmnopGET /2 HTTP/1.1\r\n\r\n"
    return b"POST / HTTP/1.1\r\n" + CH + b"\r\n" + v + b"\r\nabcdefghijklmnop\r\n0\r\n\r\n"


def make_stream(job):
    return {"F1": f1_stream, "F2": f2_stream, "F3": f3_stream}[job["family"]](job)
