"""H-sys: the threaded system under the deterministic scheduler.

Real TcpWSGIServer (constructed with _sock), real HTTPChannel, real ThreadedTaskDispatcher and worker
threads, real wasyncore.loop / poll / poll2 bodies, real trigger on a simulated pipe; simulated
select / sockets / clock; cooperative threading models."""
from harness import common
from wsx import env, sched, simenv
from wsx.core import E, ReplayEngine

YIELD_MODULES = ("channel",)


def namespaces():
    W, P = env.prepare(yield_modules=YIELD_MODULES)
    return W, None


class System:
    def __init__(self, ns, app, adj_kw=None, P=1, max_steps=8000, yield_funcs=None, fault_hook=None):
        self.ns = ns
        env.CLOCK.now = 1700000000.0
        self.s = sched.Sched(bound=P, max_steps=max_steps)
        sched.install(self.s, yield_funcs)
        self.net = simenv.Net()
        self.net.fault_hook = fault_hook
        self.sel, self.osh = simenv.wire_up(ns, self.net)
        self.listen = simenv.SimListen(self.net)
        kw = dict(threads=1, asyncore_use_poll=False)
        kw.update(adj_kw or {})
        self.adj = common.make_adj(ns, **kw)
        self.srv = ns.server.TcpWSGIServer(app, map={}, _start=True, _sock=self.listen, adj=self.adj,
                                           sockinfo=(2, 1, 0, ("127.0.0.1", 8080)))
        self.map = self.srv._map
        self.conns = []
        self.io = self.s.spawn(self._loop, "io")

    def _loop(self):
        self.ns.wasyncore.loop(timeout=1, use_poll=self.adj.asyncore_use_poll, map=self.map)

    def connect(self, inbox, addr=("10.0.0.1", 5000), accept=None, name=None):
        c = simenv.SimConn(self.net, inbox=inbox, name=name or "conn%d" % len(self.conns))
        c.accept = accept
        self.conns.append(c)
        self.listen.pending.append((c, addr))
        return c

    def run(self):
        self.s.run()

    def channels(self):
        return [o for o in self.map.values() if isinstance(o, self.ns.channel.HTTPChannel)]

    def worker_names(self):
        return [t.name for t in self.s.threads if t.name and t.name.startswith("waitress-")]

    def alive(self, name):
        return name in self.s.live()

    def close(self):
        self.s.killall()
        sched.install(None)


def replay_with(H, inputs):
    """generic replay for scheduled harnesses: concrete inputs + recorded schedule on the instrumented
    copy (the statement hooks are the scheduling points), no symbolic values"""
    W, _ = H.namespaces()
    choices = inputs.pop("__schedule__", [])
    with ReplayEngine(choices):
        obs = H.scenario(W, inputs)
        failed = [label for label, c in H.oracle(inputs, obs) if not c]
    return failed, obs
