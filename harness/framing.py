"""Implementation-side observation of a request stream and its comparison with refs/http_req."""
from harness import common
from refs import http_req
from wsx.core import s_and, sym_equal
from wsx.data import SymSeq


def impl_events(ns, stream_pieces, adj_kw=None, service="end", probe=False):
    adj = common.make_adj(ns, **(adj_kw or {}))
    app = common.RecordingApp()
    r = common.drive(ns, adj, app, stream_pieces, service=service)
    probe_res = None
    wire = r["wire"]
    calls = list(r["calls"])
    if probe and r["closing"]:
        # what does a closing / refusing connection do with further input?
        ch = r["ch"]
        ncalls = len(app.calls)
        nsent = len(r["sock"].sent)
        try:
            took = ch.received(b"GET /probe HTTP/1.1\r\n\r\n")
            ch.server.task_dispatcher.run_all()
            probe_res = (bool(took), len(app.calls) - ncalls, len(r["sock"].sent) - nsent, bool(ch.readable()))
        except Exception as e:  # noqa
            probe_res = ("exc", type(e).__name__)
    responses, rest = common.parse_responses(wire)
    events = []
    ci = 0
    for code, head, body in responses:
        if code == 200 and ci < len(calls):
            c = calls[ci]
            ci += 1
            events.append(("req", c["method"], c["uri"], c["proto"], [tuple(h) for h in c["headers"]], c["body"]))
        elif code == 100:
            events.append(("continue",))
        else:
            events.append(("err", code))
    err_heads_ok = all((b"\r\nConnection: close" in head) for code, head, body in responses if code not in (200, 100))
    return dict(events=events, unanswered_calls=len(calls) - ci, rest=len(rest), closing=r["closing"],
                pending=r["pending"], queued=r["queued"], exc=r["exc"], closed=r["closed"], probe=probe_res,
                err_conn_close=err_heads_ok)


def _envkey(name):
    for fixed in ("CONTENT_TYPE", "CONTENT_LENGTH"):
        if bool(name == fixed):
            return fixed
    return "HTTP_" + name


def compare(obs, ref_events):
    """-> list of (label, cond)"""
    out = []
    ev = [e for e in obs["events"] if e[0] != "continue"]
    out.append(("no exception escapes the connection code", obs["exc"] is None))
    out.append(("every application call is answered by exactly one response", obs["unanswered_calls"] == 0 and obs["rest"] == 0))
    expect_close = False
    n_expected = 0
    open_end = False
    for i, r in enumerate(ref_events):
        if r[0] == "any":
            open_end = True
            break
        if r[0] == "incomplete":
            out.append(("message %d is incomplete: nothing may be produced for it" % i, len(ev) == i))
            out.append(("message %d is incomplete: it must be kept pending, connection open" % i,
                        len(ev) != i or (obs["pending"] and not obs["closing"])))
            n_expected = i
            break
        if r[0] == "err":
            n_expected = i + 1
            ok = len(ev) > i and ev[i][0] == "err" and ev[i][1] in r[1]
            got = ev[i] if len(ev) > i else None
            out.append(("message %d must be refused with %s (got %r)" % (i, "/".join(map(str, r[1])), got), ok))
            expect_close = True
            break
        _, method, target, is11, fields, body, close = r
        n_expected = i + 1
        if len(ev) <= i or ev[i][0] != "req":
            out.append(("message %d must reach the application (got %r)" % (i, ev[i] if len(ev) > i else None), False))
            return out
        _, m2, t2, proto, hdrs, b2 = ev[i]
        want_fields = [(_envkey(k), v) for k, v in fields]
        cond = s_and(sym_equal(m2, method), sym_equal(t2, target), proto == ("HTTP/1.1" if is11 else "HTTP/1.0"),
                     sym_equal(hdrs, want_fields), sym_equal(b2, body))
        out.append(("message %d: method / target / version / fields / body handed to the application equal the RFC 9112 reading" % i, cond))
        if close is True:
            expect_close = True
            break
    if not open_end:
        out.append(("exactly the messages of the stream are answered (%d expected, %d seen)" % (n_expected, len(ev)), len(ev) == n_expected))
        out.append(("connection is closed after the last answered message iff RFC 9112 requires it (expected closing=%s)" % expect_close,
                    obs["closing"] == expect_close))
    return out


def compare_refusal(obs):
    """C06 extras: error responses announce the close; a closing connection consumes nothing more"""
    out = [("every error response carries Connection: close", obs["err_conn_close"])]
    if obs["closing"] and obs["probe"] is not None:
        out.append(("a closing connection ignores further input: no parse, no application call, no bytes, not readable (got %r)" % (obs["probe"],),
                    obs["probe"] == (False, 0, 0, False)))
    return out


def reference(stream, max_header=262144, max_body=1073741824, strict_target_ctl=True):
    cfg = http_req.Cfg(max_header=max_header, max_body=max_body, strict_target_ctl=strict_target_ctl)
    return http_req.parse_stream(stream, cfg)


def norm_obs(obs):
    def n(x):
        if isinstance(x, (list, tuple)):
            return tuple(n(y) for y in x)
        if isinstance(x, bytearray):
            return bytes(x)
        return x
    return n((obs["events"], obs["unanswered_calls"], obs["rest"], obs["closing"], obs["pending"], obs["queued"], obs["exc"],
              obs.get("probe"), obs.get("err_conn_close")))
