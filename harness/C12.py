"""C12 Output buffering is bounded: fast producers are paused and always released."""
from harness import common, hsys, C04
from wsx.core import E, SymInt, s_and

PROPERTY = "C12"
BUDGET = {"quick": 900, "thorough": 3000}
namespaces = hsys.namespaces
real_namespace = common.real_namespace
GOALS = ["producer still paused after a partial drain", "teardown after a socket error releases the producer", "teardown after a partial send followed by a socket error releases the producer", "producer paused at the watermark while the client stalls", "producer resumed after the client drained", "producer released by a disconnect",
         "degenerate watermark 0 or 1", "write larger than the watermark", "pre-empted schedule explored"]
ASSUMPTIONS = ["one producing worker, one connection; the client first stalls (from the start or after the first accepted send), then drains everything, "
               "takes a few bytes and stalls again, disconnects, or its socket fails with EIO (at once, or after accepting 1/6/60 more bytes); outbuf_high_watermark in [0, 400] and send_bytes in [1, 64] are "
               "symbolic integers (send_bytes <= watermark + 1 while finding D20 of C05 is recorded)",
               "schedule granularity: lock / condition / socket / pipe / select operations (thorough: plus every source line of channel.py for one scenario)"]
STUBS = C04.STUBS
SIZES = (1, 50, 150)


def BOUNDS(tier):
    return ("producer write()s 1..%d pieces of %r bytes; watermark symbolic in [0,400]; client stalls from the start or after the first send, then "
            "drains (optionally all-but-one byte per send) or disconnects; every interleaving with at most %d pre-emption(s)." % (
                2 if tier == "quick" else 3, SIZES, 1 if tier == "quick" else 2))


def jobs(tier):
    js = []
    for end in ("drain", "disconnect", "partial_drain", "error", "partial_error"):
        for stall in ("start", "after1"):
            for k in ((1, 2) if tier == "quick" else (1, 2, 3)):
                js.append(dict(name="%s:%s:k%d" % (end, stall, k), end=end, stall=stall, k=k, P=2 if (tier == "thorough" and k == 1) else 1, gran="sync"))
    if tier == "thorough":
        js.append(dict(name="drain:start:k2:line", end="drain", stall="start", k=2, P=1, gran="line"))
        js.append(dict(name="disconnect:start:k2:line", end="disconnect", stall="start", k=2, P=1, gran="line"))
    js = common.shard(js, "sz0", len(SIZES), lambda j: j["k"] >= 2)
    js = common.shard(js, "partial", 2, lambda j: j["k"] >= 2)
    js = common.shard(js, "take", 3, lambda j: j["k"] >= 2 and j["end"] in ("partial_drain", "partial_error"))
    return js


def make_inputs(job):
    eng = E()
    sizes = [SIZES[eng.choose(len(SIZES), "sz%d" % i)] for i in range(job["k"])]
    wm = eng.fresh_int("watermark", 0, 400)
    sb = eng.fresh_int("send_bytes", 1, 64)
    from wsx import runner
    if "D20-send-bytes-above-watermark-deadlock" in [k["id"] for k in runner.load_known("C05") if k.get("kind") == "known"]:
        eng.assume(sb <= wm + 1)  # recorded finding D20 (C05): send_bytes above the watermark
    partial = bool(eng.choose(2, "partial"))
    take = (1, 6, 60)[eng.choose(3, "take")] if job["end"] in ("partial_drain", "partial_error") else 0
    return dict(end=job["end"], stall=job["stall"], sizes=sizes, watermark=wm, send_bytes=sb, partial=partial, take=take, P=job["P"], gran=job["gran"])


def scenario(ns, inp):
    rec = dict(after_write=[], exc=None, done=False, nwrites=0, fault=False)
    pieces = [bytes([65 + i]) * n for i, n in enumerate(inp["sizes"])]

    def app(environ, start_response):
        ch = environ["waitress.client_disconnected"].__self__
        write = start_response("200 OK", [("Content-Length", str(sum(inp["sizes"])))])
        try:
            for p in pieces:
                write(p)
                rec["nwrites"] += 1
                rec["after_write"].append((ch.total_outbufs_len, len(p)))
        except BaseException as e:  # noqa
            rec["exc"] = type(e).__name__
            raise
        rec["done"] = True
        return []

    sysm = hsys.System(ns, app, adj_kw=dict(threads=1, outbuf_high_watermark=inp["watermark"], send_bytes=inp.get("send_bytes", 1)), P=inp["P"],
                       yield_funcs=None if inp["gran"] == "line" else set())
    try:
        conn = sysm.connect([b"GET / HTTP/1.1\r\n\r\n"])
        if inp["stall"] == "start":
            conn.client_reading = False
        else:
            orig = conn.send

            def send(d):
                n = orig(d)
                conn.client_reading = False
                conn.send = orig
                return n
            conn.send = send
        sysm.run()
        chans = sysm.channels()
        ch = chans[0] if chans else None
        stalled = dict(pending=ch.total_outbufs_len if ch else 0, waiters=len(ch.outbuf_lock.waiters) if ch else 0, wire=bytes(conn.wire()),
                       nwrites=rec["nwrites"], done=rec["done"], spinning=sysm.s.spinning)
        ch0 = ch
        if inp["end"] == "partial_drain":
            # the client takes a limited number of bytes once and stalls again
            conn.client_reading = True
            orig3 = conn.send

            def send3(d):
                conn.accept = [inp["take"]]
                n = orig3(d)
                conn.client_reading = False
                conn.send = orig3
                return n
            conn.send = send3
        elif inp["end"] == "error":
            import errno as _errno
            conn.client_reading = True
            origf = conn.send

            def sendf(d):
                raise OSError(_errno.EIO, "I/O error")
            conn.send = sendf
        elif inp["end"] == "partial_error":
            # the socket accepts a few bytes once more (the backlog may fall to or below the mark), then every send fails with EIO
            import errno as _errno
            conn.client_reading = True
            orig4 = conn.send
            first = [True]

            def send4(d):
                if first[0]:
                    first[0] = False
                    conn.accept = [inp["take"]]
                    return orig4(d)
                rec["fault"] = True
                raise OSError(_errno.EIO, "I/O error")
            conn.send = send4
        elif inp["end"] == "drain":
            conn.client_reading = True
            if inp["partial"]:
                orig2 = conn.send

                def send2(d):
                    conn.accept = [max(1, len(d) - 1)]
                    return orig2(d)
                conn.send = send2
        else:
            conn.peer_gone = True
        sysm.s.spinning = False
        sysm.run()
        chans = sysm.channels()
        final = dict(fault=rec["fault"], wire=bytes(conn.wire()), closed=conn.closed, done=rec["done"], exc=rec["exc"], nwrites=rec["nwrites"],
                     pending=[c.total_outbufs_len for c in chans], waiters=[len(c.outbuf_lock.waiters) for c in chans],
                     blocked=sorted(sysm.s.blocked()), spinning=sysm.s.spinning, queued=[len(c.requests) for c in chans],
                     ch_total=ch0.total_outbufs_len if ch0 is not None else 0, ch_waiters=len(ch0.outbuf_lock.waiters) if ch0 is not None else 0)
        obs = dict(after_write=list(rec["after_write"]), stalled=stalled, final=final, exc=list(sysm.s.thread_exceptions), live=sorted(sysm.s.live()),
                   preempt=sysm.s.preempt)
    finally:
        sysm.close()
    return obs


def _expected(inp):
    body = b"".join(bytes([65 + i]) * n for i, n in enumerate(inp["sizes"]))
    return body


def oracle(inp, obs):
    wm = inp["watermark"]
    out = [("no thread dies with an exception (%r)" % (obs["exc"],), not obs["exc"]),
           ("I/O loop and worker are alive", "io" in obs["live"] and any(n.startswith("waitress-") for n in obs["live"]))]
    for pend, n in obs["after_write"]:
        out.append(("after a write of %d bytes the unsent output (%d) does not exceed the watermark plus that write" % (n, pend), pend <= wm + n))
    st, fin = obs["stalled"], obs["final"]
    head_len = 200  # the response head is the first write (a little over 100 bytes)
    out.append(("while the client stalls the unsent output stays below watermark + one write (pending %d)" % st["pending"],
                st["pending"] <= wm + max(head_len, max(inp["sizes"]))))
    out.append(("a stalled client does not make the I/O loop busy-poll", not st["spinning"] and not fin["spinning"]))
    body = _expected(inp)
    if st["waiters"]:
        out.append(("a paused producer waits only while the backlog is above the watermark", bool(st["pending"] > wm)))
    if inp["end"] == "drain":
        out.append(("after the client drained the backlog the producer resumed and finished", fin["done"] and fin["exc"] is None and fin["waiters"] == [0]))
        out.append(("the client received exactly the response, in order, unmodified", fin["wire"].endswith(b"\r\n\r\n" + body) and fin["wire"].count(b"HTTP/1.1 200") == 1))
        out.append(("nothing is left pending", fin["pending"] == [0] and fin["queued"] == [0]))
    elif inp["end"] == "partial_drain" or (inp["end"] == "partial_error" and not fin.get("fault")):
        # (partial_error whose failing send was never reached: the accepted bytes completed the response, nothing faulted)
        if fin["ch_waiters"]:
            out.append(("after a partial drain a paused producer keeps waiting only while the backlog is above the watermark (backlog %d)" % fin["ch_total"],
                        bool(fin["ch_total"] > wm)))
        out.append(("the backlog never becomes negative", fin["ch_total"] >= 0))
    else:
        out.append(("after the teardown the channel holds no output and the count is not negative", fin["ch_total"] == 0))
        out.append(("on disconnect the producer is released promptly (not left waiting)", not any(fin["waiters"]) and fin["ch_waiters"] == 0))
        out.append(("on disconnect the request is aborted or had already finished", fin["done"] or fin["exc"] == "ClientDisconnected"))
        out.append(("the connection is torn down", fin["closed"] >= 1))
        exp = body
        w = fin["wire"]
        p = w.find(b"\r\n\r\n")
        out.append(("what the client received before the disconnect is a prefix of the response", p < 0 or exp.startswith(w[p + 4:])))
    return out


def goals(cin, cobs):
    out = []
    if cobs["stalled"]["waiters"]:
        out.append("producer paused at the watermark while the client stalls")
        if cin["end"] == "drain" and cobs["final"]["done"]:
            out.append("producer resumed after the client drained")
        if cin["end"] == "disconnect" and not any(cobs["final"]["waiters"]):
            out.append("producer released by a disconnect")
    if cin["end"] == "partial_drain" and cobs["final"]["ch_waiters"]:
        out.append("producer still paused after a partial drain")
    if cin["end"] == "error" and cobs["stalled"]["waiters"] and not cobs["final"]["ch_waiters"]:
        out.append("teardown after a socket error releases the producer")
    if cin["end"] == "partial_error" and cobs["stalled"]["waiters"] and not cobs["final"]["ch_waiters"]:
        out.append("teardown after a partial send followed by a socket error releases the producer")
    if cin["watermark"] <= 1:
        out.append("degenerate watermark 0 or 1")
    if max(cin["sizes"]) > cin["watermark"]:
        out.append("write larger than the watermark")
    if cobs["preempt"]:
        out.append("pre-empted schedule explored")
    return out


def normalize(obs):
    return obs


def replay(rep, inputs):
    import harness.C12 as H
    return hsys.replay_with(H, inputs)
