"""C15 Untrusted peers cannot influence connection metadata.

Relational (self-composition): the same request is run through the real server wrapping
(BaseWSGIServer.__init__ -> proxy_headers_middleware), real parser and WSGITask.get_environment twice -
with and without the six proxy headers - for a peer that is not the trusted proxy."""
import z3

from harness import common
from wsx.core import E, PathAbort, s_and, sym_equal
from wsx.data import SymStr, SymBytes, SymSeq

PROPERTY = "C15"
BUDGET = {"quick": 900, "thorough": 2400}
namespaces = common.namespaces
real_namespace = common.real_namespace
META = ("REMOTE_ADDR", "REMOTE_HOST", "REMOTE_PORT", "SERVER_NAME", "SERVER_PORT", "HTTP_HOST", "wsgi.url_scheme")
HDRS = {"x-forwarded-for": b"X-Forwarded-For", "x-forwarded-host": b"X-Forwarded-Host", "x-forwarded-proto": b"X-Forwarded-Proto",
        "x-forwarded-port": b"X-Forwarded-Port", "x-forwarded-by": b"X-Forwarded-By", "forwarded": b"Forwarded"}
ENVK = {k: "HTTP_" + v.decode().upper().replace("-", "_") for k, v in HDRS.items()}
TRUSTED = "10.0.0.9"
GOALS = ["untrusted peer after requests of the trusted proxy", "untrusted peer with middleware installed", "headers cleared", "headers passed through (clearing off)", "no middleware installed"]
ASSUMPTIONS = ["trusted_proxy '*' is outside the quantifier (property text)", "the peer address differs from trusted_proxy in at least one character"]
STUBS = ["as C01", "socket.getaddrinfo inside waitress.adjustments (as C20)", "listening socket (never accepts)", "trigger pipe (real os.pipe, closed per path)"]
TEMPLATES = {
    "x-forwarded-for": [b"1.2.3.4", b"\"[::1]\", 10.0.0.9", b":80", b"\""],
    "x-forwarded-host": [b"evil.example:443", b"a,b", b"[::1]:1"],
    "x-forwarded-proto": [b"https", b"ftp", b"a,b"],
    "x-forwarded-port": [b"443", b"1,2"],
    "x-forwarded-by": [b"x"],
    "forwarded": [b"for=1.2.3.4;host=evil.example;proto=https", b"for=:80", b"nonsense", b"for=\""],
}
CONFIGS = [
    dict(trusted_proxy=None, headers=(), clear=True),
    dict(trusted_proxy=None, headers=(), clear=False),
    dict(trusted_proxy=TRUSTED, headers=("x-forwarded-proto",), clear=True),
    dict(trusted_proxy=TRUSTED, headers=("x-forwarded-for", "x-forwarded-host", "x-forwarded-proto", "x-forwarded-port", "x-forwarded-by"), clear=True),
    dict(trusted_proxy=TRUSTED, headers=("x-forwarded-for", "x-forwarded-host"), clear=False),
    dict(trusted_proxy=TRUSTED, headers=("forwarded",), clear=True),
    dict(trusted_proxy=TRUSTED, headers=("forwarded",), clear=False),
    # trusted_proxy without trusted_proxy_headers (deprecated form: X-Forwarded-Proto is trusted implicitly)
    dict(trusted_proxy=TRUSTED, headers=(), clear=True),
    dict(trusted_proxy=TRUSTED, headers=(), clear=False),
]


def BOUNDS(tier):
    return ("%d configurations (trusted_proxy None / an address, six trusted_proxy_headers sets incl. the deprecated empty one, trusted_proxy_count 1..4, clearing on/off) x "
            "peer address '10.0.0.<c>', '<trusted><c>' or '<c><trusted>' with <c> symbolic (never equal to the trusted address) x { every proxy header with a fully symbolic value of "
            "<= %d bytes; hostile templates with a 1-byte window at every position; all six headers present at once, also after 0..2 requests served to the trusted "
            "proxy itself (history) }" % (
                len(CONFIGS), 3 if tier == "quick" else 4))


def jobs(tier):
    js = []
    nmax = 3 if tier == "quick" else 4
    for ci in range(len(CONFIGS)):
        for kind in HDRS:
            for n in range(1, nmax + 1):
                js.append(dict(name="SYM:c%d:%s:n%d" % (ci, kind, n), fam="SYM", cfg=ci, kind=kind, n=n))
            for ti, t in enumerate(TEMPLATES[kind]):
                js.append(dict(name="TPL:c%d:%s:t%d" % (ci, kind, ti), fam="TPL", cfg=ci, kind=kind, t=ti))
        js.append(dict(name="ALL:c%d" % ci, fam="ALL", cfg=ci))
        if CONFIGS[ci]["trusted_proxy"]:
            # history: the trusted proxy has been served (0..2 requests) before the untrusted peer sends its headers
            js.append(dict(name="HIST:c%d" % ci, fam="HIST", cfg=ci))
    return js


def make_inputs(job):
    eng = E()
    cfg = dict(CONFIGS[job["cfg"]])
    cfg["count"] = 1 + eng.choose(4, "count") if cfg["trusted_proxy"] else 1
    last = SymStr.fresh(1, "peer")
    shape = eng.choose(3, "peershape")
    if shape == 0:      # same length, differs in the last character
        eng.assume(z3.And(z3.UGE(last.c[0], 48), z3.ULE(last.c[0], 57), last.c[0] != 57))
        peer = "10.0.0." + last
    elif shape == 1:    # the trusted address is a proper prefix of the peer address
        eng.assume(z3.Or(z3.And(z3.UGE(last.c[0], 48), z3.ULE(last.c[0], 57)), last.c[0] == 37))
        peer = TRUSTED + last
    else:               # the trusted address is a proper suffix of the peer address
        eng.assume(z3.And(z3.UGE(last.c[0], 49), z3.ULE(last.c[0], 57)))
        peer = last + TRUSTED
    hdrs = []
    if job["fam"] == "SYM":
        v = SymBytes.fresh(job["n"], "v")
        hdrs.append((job["kind"], v))
    elif job["fam"] == "TPL":
        t = TEMPLATES[job["kind"]][job["t"]]
        pos = eng.choose(len(t), "pos")
        v = t[:pos] + SymBytes.fresh(1, "w") + t[pos + 1:]
        hdrs.append((job["kind"], v))
    else:
        for kind in HDRS:
            hdrs.append((kind, TEMPLATES[kind][0]))
    pre = eng.choose(3, "pre") if job["fam"] == "HIST" else 0
    return dict(cfg=cfg, peer=peer, hdrs=hdrs, pre=pre)


def _run(ns, cfg, peer, hdrs):
    # the settings go through the real Adjustments.__init__ (deprecated forms, defaults and cross-checks included); only getaddrinfo is stubbed
    from harness import C20
    m = C20._adj(ns)
    kw = dict(clear_untrusted_proxy_headers=cfg["clear"], log_untrusted_proxy_headers=False)
    if cfg["trusted_proxy"]:
        kw.update(trusted_proxy=cfg["trusted_proxy"], trusted_proxy_count=cfg["count"])
        if cfg["headers"]:
            kw["trusted_proxy_headers"] = set(cfg["headers"])
    adj = m.Adjustments(**kw)
    seen = []

    def app(environ, start_response):
        sub = {k: environ.get(k) for k in META}
        for k, ek in ENVK.items():
            sub[ek] = environ.get(ek)
        seen.append(sub)
        start_response("200 OK", [("Content-Length", "0")])
        return [b""]

    data = b"GET / HTTP/1.1\r\nHost: real.example\r\n"
    for kind, v in hdrs:
        data = data + HDRS[kind] + b": " + v + b"\r\n"
    data = data + b"\r\n"
    r = common.drive_real(ns, adj, app, [data], addr=(peer, 50000))
    status = r["wire"][9:12]
    return dict(env=seen[0] if seen else None, status=status, exc=r["exc"], ncalls=len(seen))


def scenario(ns, inp):
    for i in range(inp.get("pre", 0)):
        # requests of the trusted proxy itself, carrying the kinds it is trusted for (their outcome is C16's subject)
        kinds = inp["cfg"]["headers"] or ("x-forwarded-proto",)
        _run(ns, inp["cfg"], TRUSTED, [(k, TEMPLATES[k][0]) for k in kinds])
    a = _run(ns, inp["cfg"], inp["peer"], inp["hdrs"])
    b = _run(ns, inp["cfg"], inp["peer"], [])
    return dict(a=a, b=b)


def oracle(inp, obs):
    a, b = obs["a"], obs["b"]
    out = [("no exception", a["exc"] is None and b["exc"] is None)]
    out.append(("the request without proxy headers is served", b["env"] is not None))
    if a["env"] is None:
        # the header line itself was malformed (refused by the parser): nothing reached the application
        out.append(("a request that is not served was refused by the header parser with 400, not by the proxy logic",
                    sym_equal(a["status"], b"400")))
        return out
    out.append(("connection metadata equals that of the same request without the proxy headers",
                s_and(*[sym_equal(a["env"][k], b["env"][k]) for k in META])))
    if inp["cfg"]["clear"]:
        out.append(("with clear_untrusted_proxy_headers the proxy headers do not reach the application",
                    all(a["env"][ek] is None for ek in ENVK.values())))
    return out


def normalize(obs):
    def n(x):
        if isinstance(x, dict):
            return tuple((k, n(v)) for k, v in sorted(x.items()))
        if isinstance(x, (list, tuple)):
            return tuple(n(y) for y in x)
        return x
    return n(obs)


def goals(cin, cobs):
    out = []
    cfg = cin["cfg"]
    if cfg["trusted_proxy"] or cfg["clear"]:
        out.append("untrusted peer with middleware installed")
    else:
        out.append("no middleware installed")
    if cin.get("pre"):
        out.append("untrusted peer after requests of the trusted proxy")
    a = cobs["a"]
    if a["env"] is not None:
        if cfg["clear"] and all(a["env"][ek] is None for ek in ENVK.values()):
            out.append("headers cleared")
        if not cfg["clear"] and any(a["env"][ek] is not None for ek in ENVK.values()):
            out.append("headers passed through (clearing off)")
    return out
