"""C03 Every response stream is well-framed and persistence is signalled truthfully.
(shared application-program machinery is reused by C09)"""
import z3

from harness import common
from refs import http_resp
from wsx import env
from wsx.core import E, PathAbort, s_and, sym_equal, mkbool, SymInt
from wsx.data import SymStr, SymBytes, SymSeq, lift
from wsx.sxbuiltins import sx_int

PROPERTY = "C03"
BUDGET = {"quick": 900, "thorough": 3000}
namespaces = common.namespaces
real_namespace = common.real_namespace
GOALS = ["exact Content-Length response", "chunked response", "close-delimited response", "too few bytes: closed", "excess bytes cut at Content-Length",
         "no-body status", "HEAD response", "file wrapper response", "second pipelined request served", "failure after the head: closed"]
ASSUMPTIONS = [
    "applications that emit body bytes for HEAD, or several / non-decimal Content-Length headers, are outside the quantifier (property text)",
    "full sends only (partial sends are C04/C12); one worker, requests serviced in order",
]
STUBS = ["as C01", "the file handed to wsgi.file_wrapper is a SymFile (seekable) or a read()-only object (not seekable)"]
def _head_server_bytes(inp, obs):
    """known finding D16: responses to HEAD whose body bytes the server itself generates (chunked terminator when the application
    declares no length, body of the 500 answer)"""
    p = inp["prog"]
    return p["method"] == "HEAD" and (p["cl"] is None or p["fail"] is not None or not has_body(p["status"]))


KNOWN = {"D16-head-server-generated-body": _head_server_bytes}
ALPHABET = b"abcdefghijklmnopqrstuvwxyz"
STATUSES = ("200 OK", "204 No Content", "304 Not Modified", "404 Not Found")
MODES = ("list", "gen", "write", "write_list", "file", "file_noseek")
LENS = (0, 1, 3)


def BOUNDS(tier):
    return ("application program: status in %r; declared Content-Length absent or one symbolic decimal digit (0-9, decided against the produced "
            "byte counts by integer arithmetic); body as list / generator / write() calls / write() then list / wsgi.file_wrapper (seekable, not seekable) of up to %d pieces "
            "with lengths in %r; failure before output (ordinary exception) or after the first piece (ordinary exception or an OSError subclass, the "
            "latter with log_socket_errors on and off); request method GET/HEAD, HTTP/1.0 and 1.1, Connection "
            "absent/close/keep-alive; with and without a second pipelined request." % (STATUSES, 2 if tier == "quick" else 3, LENS))


def jobs(tier):
    js = []
    kmax = 2 if tier == "quick" else 3
    for mode in MODES:
        for st in range(len(STATUSES)):
            for ver in ("1.1", "1.0"):
                for method in ("GET", "HEAD"):
                    js.append(dict(name="P:%s:%s:%s:%s" % (mode, STATUSES[st][:3], ver, method), mode=mode, st=st, ver=ver, method=method, kmax=kmax))
    return js


def make_program(job, eng, with_fail=True):
    k = eng.choose(job["kmax"] + 1, "k")
    pieces = []
    off = 0
    if job["method"] == "HEAD":
        k = 0  # no body bytes for HEAD (outside the quantifier otherwise)
    for i in range(k):
        ln = LENS[eng.choose(len(LENS), "len%d" % i)]
        pieces.append(ALPHABET[off:off + ln])
        off += ln
    clmode = eng.choose(2, "hascl")
    cl = None
    if clmode:
        d = SymStr.fresh(1, "cl")
        eng.assume(z3.And(z3.UGE(d.c[0], 48), z3.ULE(d.c[0], 57)))
        cl = d
    fail = None
    if with_fail:
        fail = (None, "before", "after_first")[eng.choose(3, "fail")]
        if fail == "after_first" and (job["mode"] not in ("gen", "write", "write_list") or k < 1 or not pieces[0]):
            raise PathAbort()
    # the failure is an ordinary exception or an OSError subclass (which Task.service treats as a socket error), with log_socket_errors on / off
    exc, logsock = "app", True
    if fail == "after_first":
        exc = ("app", "oserror")[eng.choose(2, "exc")]
        if exc == "oserror":
            logsock = bool(eng.choose(2, "logsock"))
    conn = (None, "close", "keep-alive")[eng.choose(3, "conn")]
    second = bool(eng.choose(2, "second"))
    skipn = eng.choose(2, "fileoffset") if job["mode"] in ("file", "file_noseek") and sum(len(p) for p in pieces) > 1 else 0
    return dict(fileoffset=skipn, mode=job["mode"], status=STATUSES[job["st"]], pieces=pieces, cl=cl, fail=fail, ver=job["ver"], method=job["method"],
                conn=conn, second=second, exc=exc, logsock=logsock)


def make_inputs(job):
    return dict(prog=make_program(job, E()))


class NoSeekFile:
    def __init__(self, data):
        self.data = data
        self.pos = 0
        self.closed = 0

    def read(self, n=-1):
        if n is None or n < 0:
            n = len(self.data)
        r = self.data[self.pos:self.pos + n]
        self.pos += len(r)
        return r

    def close(self):
        self.closed += 1


class AppError(Exception):
    pass


class ProgramApp:
    """the application under quantification; records what it did"""

    def __init__(self, prog, ns, exc_class=AppError):
        self.prog = prog
        self.ns = ns
        self.ncalls = 0
        self.closes = 0
        self.file = None
        self.exc_class = exc_class
        self.produced = []

    def __call__(self, environ, start_response):
        self.ncalls += 1
        if self.ncalls > 1:
            start_response("200 OK", [("Content-Length", "2")])
            return [b"OK"]
        p = self.prog
        hdrs = [("X-App", "1")]
        if p["cl"] is not None:
            hdrs.append(("Content-Length", p["cl"]))
        if p["fail"] == "before":
            raise self.exc_class("boom before output")
        app = self
        mode = p["mode"]
        if p.get("exc") == "oserror":
            self.exc_class = lambda msg: FileNotFoundError(2, msg)
        if mode == "list":
            start_response(p["status"], hdrs)
            self.produced = list(p["pieces"])
            return CloseableList(p["pieces"], self)
        if mode == "gen":
            def gen():
                start_response(p["status"], hdrs)
                for i, piece in enumerate(p["pieces"]):
                    app.produced.append(piece)
                    yield piece
                    if p["fail"] == "after_first" and i == 0:
                        raise app.exc_class("boom after the first piece")
            return CloseableIter(gen(), self)
        if mode == "write":
            write = start_response(p["status"], hdrs)
            for i, piece in enumerate(p["pieces"]):
                self.produced.append(piece)
                write(piece)
                if p["fail"] == "after_first" and i == 0:
                    raise self.exc_class("boom after the first write")
            return CloseableList([], self)
        if mode == "write_list":
            # the first piece through the write() callable, the rest as the returned list (PEP 3333 allows mixing)
            write = start_response(p["status"], hdrs)
            if p["pieces"]:
                self.produced.append(p["pieces"][0])
                write(p["pieces"][0])
                if p["fail"] == "after_first":
                    raise self.exc_class("boom after the first write")
            self.produced.extend(p["pieces"][1:])
            return CloseableList(p["pieces"][1:], self)
        data = b"".join(p["pieces"])
        off = p.get("fileoffset", 0)
        self.produced = [data[off:]]
        start_response(p["status"], hdrs)
        if mode == "file":
            f = _make_file(self.ns, data)
            f.seek(off)  # the application hands over a file that is already positioned (e.g. after reading a header)
        else:
            f = NoSeekFile(data)
            f.read(off)
        self.file = f
        return environ["wsgi.file_wrapper"](f, 2)


def _make_file(ns, data):
    if getattr(ns, "_is_instrumented", False):
        from wsx.files import SymFile
        return SymFile(data)
    import io
    return CountingBytesIO(data)


import io as _io


class CountingBytesIO(_io.BytesIO):
    close_calls = 0

    def close(self):
        self.close_calls += 1
        super().close()


class CloseableList(list):
    def __init__(self, items, app):
        super().__init__(items)
        self._app = app

    def close(self):
        self._app.closes += 1


class CloseableIter:
    def __init__(self, it, app):
        self._it = it
        self._app = app

    def __iter__(self):
        return self

    def __next__(self):
        return next(self._it)

    def close(self):
        self._app.closes += 1


def build_request(p):
    req = ("%s /one HTTP/%s\r\n" % (p["method"], p["ver"])).encode()
    if p["conn"]:
        req += ("Connection: %s\r\n" % p["conn"]).encode()
    req += b"\r\n"
    if p["second"]:
        req += b"GET /two HTTP/1.1\r\n\r\n"
    return req


def run_program(ns, prog, adj_kw=None, app_cls=ProgramApp, sock=None, **appkw):
    adj_kw = dict(adj_kw or {})
    if not prog.get("logsock", True):
        adj_kw["log_socket_errors"] = False
    adj = common.make_adj(ns, **adj_kw)
    app = app_cls(prog, ns, **appkw)
    r = common.drive(ns, adj, app, [build_request(prog)], sock=sock)
    fclose = None
    if app.file is not None:
        fclose = getattr(app.file, "close_calls", None)
        if fclose is None:
            fclose = getattr(app.file, "closed", None)
    return dict(wire=r["wire"], closing=r["closing"], closed=r["closed"], exc=r["exc"], ncalls=app.ncalls, closes=app.closes, fclose=fclose,
                logs=list(env.log_records(ns.utilities.__name__.split(".")[0])))


def scenario(ns, inp):
    r = run_program(ns, inp["prog"])
    r.pop("logs")
    return r


# --------------------------------------------------------------------------------------------- oracle
def has_body(status):
    return not (status.startswith("1") or status.startswith("204") or status.startswith("304"))


def oracle(inp, obs):
    p = inp["prog"]
    out = [("no exception escapes", obs["exc"] is None)]
    methods = [p["method"], "GET"]
    resps = [r for r in http_resp.read_responses(obs["wire"], methods) if not r.get("interim")]
    produced = b"".join(p["pieces"])[p.get("fileoffset", 0):]
    failed_before = p["fail"] == "before"
    failed_after = p["fail"] == "after_first"
    if not resps:
        out.append(("the first request is answered", False))
        return out
    r1 = resps[0]
    out.append(("the response head is well-formed", r1["head_ok"] and r1["status"] is not None))
    if r1["status"] is None:
        return out
    if failed_before:
        out.append(("failure before output: one complete 500 response, then close", r1["status"] == 500 and r1["complete"] and obs["closing"] and len(resps) == 1))
        out.append(("an error response announces Connection: close", http_resp.says_close(r1)))
        return out
    out.append(("the status line is the application's", r1["status"] == int(p["status"][:3]) and sym_equal(r1["reason"], p["status"][4:].encode())))
    body_expected = has_body(p["status"]) and p["method"] != "HEAD"
    cl = sx_int(p["cl"]) if p["cl"] is not None else None
    # what a client must recover
    if not body_expected:
        out.append(("no body bytes on the wire for HEAD / 1xx / 204 / 304", r1["framing"] == "none" and (len(resps) > 1 or len(r1["body"]) == 0)))
        delimited = True
    else:
        sent = produced if not failed_after else p["pieces"][0]
        if cl is not None and p["mode"] not in ("file",):
            enough = len(sent) >= cl
            if bool(enough):
                want = sent[:cl.__index__() if isinstance(cl, SymInt) else cl]
                out.append(("body cut at the declared Content-Length is recovered exactly", r1["complete"] and bool(sym_equal(r1["body"], want))))
                delimited = True
            else:
                out.append(("too few bytes for the declared Content-Length: the response is not complete and carries exactly what was produced",
                            (not r1["complete"]) and bool(sym_equal(r1["body"], sent))))
                delimited = False
        elif p["mode"] == "file":
            # seekable file: the declared length is reconciled with the file size
            want = produced if cl is None else produced[:min(len(produced), cl.__index__() if isinstance(cl, SymInt) else cl)] if len(produced) else produced
            if cl is not None and len(produced) == 0:
                want = b""
            ok = bool(sym_equal(r1["body"], want)) and (r1["complete"] or (cl is not None and bool(cl > len(produced)) and len(produced) == 0))
            out.append(("file wrapper: the client recovers the file's bytes (cut at a smaller declared length)", ok))
            delimited = r1["complete"]
        else:
            out.append(("without a declared length the body is recovered exactly (chunked, computed length or close-delimited)",
                        bool(sym_equal(r1["body"], sent)) and (r1["complete"] or failed_after)))
            delimited = r1["complete"] and not failed_after
            if r1["framing"] == "close":
                out.append(("a close-delimited response is followed by closing the connection", obs["closing"] and len(resps) == 1))
    if failed_after:
        out.append(("failure after the head was sent: the connection is closed, nothing further is served", obs["closing"] and len(resps) == 1))
    if not delimited:
        out.append(("a response that cannot be delimited as announced is followed by closing the connection, nothing further is served",
                    obs["closing"] and len(resps) == 1))
    # persistence signalling
    known_last = p["conn"] == "close" or (p["ver"] == "1.0" and p["conn"] != "keep-alive")
    if known_last:
        out.append(("a response known in advance to be the last carries Connection: close", http_resp.says_close(r1)))
        out.append(("... and the connection is closed after it", obs["closing"] and len(resps) == 1))
    out.append(("a response never announces both close and keep-alive", not (http_resp.says_close(r1) and http_resp.says_keepalive(r1))))
    announces_persist = (not http_resp.says_close(r1)) if p["ver"] == "1.1" else http_resp.says_keepalive(r1)
    if announces_persist and delimited and not failed_after:
        out.append(("a response that announces persistence is followed by normal service of the next request",
                    (not obs["closing"]) and (len(resps) == 2 if p["second"] else len(resps) == 1)))
        if p["second"] and len(resps) == 2:
            out.append(("the second response is complete and is the second application call's", resps[1]["complete"] and resps[1]["status"] == 200
                        and bool(sym_equal(resps[1]["body"], b"OK")) and obs["ncalls"] == 2))
    else:
        out.append(("after a response that announces closing nothing further is served", len(resps) == 1 and obs["ncalls"] == 1))
    return out


def normalize(obs):
    return (obs["wire"], obs["closing"], obs["exc"], obs["ncalls"], obs["closes"], obs["fclose"])


def goals(cin, cobs):
    p = cin["prog"]
    out = []
    resps = http_resp.read_responses(cobs["wire"], [p["method"], "GET"])
    if not resps or resps[0]["status"] is None:
        return out
    r = resps[0]
    produced = b"".join(p["pieces"])
    cl = int(p["cl"]) if p["cl"] is not None else None
    if r["framing"] == "length" and r["complete"] and p["fail"] is None:
        out.append("exact Content-Length response")
    if r["framing"] == "chunked":
        out.append("chunked response")
    if r["framing"] == "close":
        out.append("close-delimited response")
    if r["framing"] == "length" and not r["complete"]:
        out.append("too few bytes: closed")
    if cl is not None and len(produced) > cl and has_body(p["status"]) and p["method"] == "GET" and p["fail"] is None:
        out.append("excess bytes cut at Content-Length")
    if not has_body(p["status"]):
        out.append("no-body status")
    if p["method"] == "HEAD":
        out.append("HEAD response")
    if p["mode"].startswith("file") and r["status"] == int(p["status"][:3]):
        out.append("file wrapper response")
    if len(resps) == 2:
        out.append("second pipelined request served")
    if p["fail"] == "after_first" and cobs["closing"]:
        out.append("failure after the head: closed")
    return out
