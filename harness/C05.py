"""C05 No lost wake-up: responses are delivered without relying on the poll timeout."""
from harness import common, hsys, C04
from wsx import env
from wsx.core import E, PathAbort, SymInt

PROPERTY = "C05"
BUDGET = {"quick": 900, "thorough": 3000}
namespaces = hsys.namespaces
real_namespace = common.real_namespace
GOALS = ["application blocked between writes", "long-poll served by the second worker", "producer left output pending and woke the I/O loop", "producer paused on the high watermark and was released", "select() implementation",
         "poll() implementation", "second request chained after the first", "pre-empted schedule explored"]
ASSUMPTIONS = [
    "the poll timeout is infinite: select()/poll() return only when a descriptor is ready (the simulated select ignores the timeout argument)",
    "the client keeps reading; the first send() may accept everything, all but one byte, or would block",
    "send_bytes in [1, 512] and outbuf_high_watermark in [0, 512] are symbolic integers decided jointly with the schedule",
]
STUBS = C04.STUBS
SIZES = (1, 40, 200)


def _d20(inp, obs, label=""):
    """recorded finding D20, second face: with send_bytes > 1, output of less than send_bytes bytes pending while a request is running makes
    the channel writable without being flushed - the I/O loop polls in a busy loop until more output arrives"""
    return label.startswith("the I/O loop does not busy-poll") and bool(inp["send_bytes"] > 1)


KNOWN = {"D20-send-bytes-above-watermark-deadlock": _d20}


def BOUNDS(tier):
    return ("one connection, 1..2 requests; the application write()s / yields 1..%d pieces of %r bytes (quick: 1 or 200); send_bytes and outbuf_high_watermark "
            "symbolic; select and poll; 1 worker; every interleaving with at most %d pre-emption(s) at the granularity of lock / condition / socket / "
            "pipe / select operations (thorough: plus source-line granularity for a single write)." % (
                2 if tier == "quick" else 3, SIZES, 1 if tier == "quick" else 2))


def jobs(tier):
    js = []
    for poll in (False, True):
        js.append(dict(name="%s:write_block:r1:k2" % ("poll" if poll else "select"), poll=poll, mode="write_block", nreq=1, k=2,
                       P=1, gran="sync", sizes=(1, 200) if tier == "quick" else SIZES))
        js.append(dict(name="%s:dep" % ("poll" if poll else "select"), poll=poll, mode="dep", nreq=1, k=1, P=0 if tier == "quick" else 1, gran="sync", sizes=(1,)))
    for poll in (False, True):
        for mode in ("write", "gen"):
            for nreq in (1, 2):
                for k in ((1, 2) if tier == "quick" else (1, 2, 3)):
                    if tier == "quick" and nreq == 2 and k == 2:
                        continue
                    js.append(dict(name="%s:%s:r%d:k%d" % ("poll" if poll else "select", mode, nreq, k), poll=poll, mode=mode, nreq=nreq, k=k,
                                   P=2 if (tier == "thorough" and k == 1 and nreq == 1) else 1, gran="sync", sizes=(1, 200) if tier == "quick" else SIZES))
    if tier == "thorough":
        for poll in (False, True):
            js.append(dict(name="%s:write:r1:k1:line" % ("poll" if poll else "select"), poll=poll, mode="write", nreq=1, k=1, P=1, gran="line", sizes=SIZES))
    out = []
    for j in js:
        if j["k"] >= 2 or j["nreq"] >= 2:
            out += common.shard(common.shard([j], "acc0", 6 if j["mode"] == "write_block" else 3), "sz0", len(j["sizes"]))
        else:
            out.append(j)
    return out


def make_inputs(job):
    eng = E()
    sizes = [job["sizes"][eng.choose(len(job["sizes"]), "sz%d" % i)] for i in range(job["k"])]
    send_bytes = eng.fresh_int("send_bytes", 1, 512)
    watermark = eng.fresh_int("watermark", 0, 512)
    acc0 = (None, -1, 0, "leave1@2", "leave40@2", "leave1@3")[eng.choose(6 if job["mode"] == "write_block" else 3, "acc0")]
    from wsx import runner
    if "D20-send-bytes-above-watermark-deadlock" in runner.CURRENT_KNOWN:
        # recorded finding: with watermark < pending < send_bytes the producer waits and the I/O thread never flushes
        eng.assume(send_bytes <= watermark + 1)
    return dict(poll=job["poll"], mode=job["mode"], nreq=job["nreq"], sizes=sizes, send_bytes=send_bytes, watermark=watermark, acc0=acc0, P=job["P"],
                gran=job["gran"])


def make_app(sizes, mode, log, gate=None):
    from wsx import sched

    def app(environ, start_response):
        log.append(environ["PATH_INFO"])
        total = sum(sizes)
        pieces = [bytes([97 + i]) * n for i, n in enumerate(sizes)]
        if mode == "dep":
            # a long-poll: /wait is answered only once /post has been executed (on another connection)
            if environ["PATH_INFO"] == "/wait":
                sched.block_until(lambda: "/post" in log, "app.wait-for-post")
            start_response("200 OK", [("Content-Length", "1")])
            return [b"z"]
        if mode == "write_block":
            write = start_response("200 OK", [("Content-Length", str(total))])
            write(pieces[0])
            gate["written"] = len(pieces[0])
            sched.block_until(lambda: gate.get("go", False), "app.blocked-between-writes")
            for p in pieces[1:]:
                write(p)
            return []
        if mode == "write":
            write = start_response("200 OK", [("Content-Length", str(total))])
            for p in pieces:
                write(p)
            return []
        start_response("200 OK", [("Content-Length", str(total))])
        return iter(pieces)
    return app


def scenario(ns, inp):
    log = []
    gate = {}
    sysm = hsys.System(ns, make_app(inp["sizes"], inp["mode"], log, gate),
                       adj_kw=dict(threads=2 if inp["mode"] == "dep" else 1, asyncore_use_poll=inp["poll"], send_bytes=inp["send_bytes"],
                                   outbuf_high_watermark=inp["watermark"]),
                       P=inp["P"], yield_funcs=None if inp.get("gran") == "line" else set())
    try:
        data = b"".join(b"GET /%d HTTP/1.1\r\n\r\n" % (i + 1) for i in range(inp["nreq"]))
        conn2 = None
        if inp["mode"] == "dep":
            conn = sysm.connect([b"GET /wait HTTP/1.1\r\n\r\n"])
            conn2 = sysm.connect([b"GET /post HTTP/1.1\r\n\r\n"], addr=("10.0.0.2", 5001))
        else:
            conn = sysm.connect([data])
        if inp["acc0"] is not None:
            orig = conn.send
            state = [True]
            nth = [0]
            if isinstance(inp["acc0"], str):
                leave, at = int(inp["acc0"][5:].split("@")[0]), int(inp["acc0"].split("@")[1])
            else:
                leave, at = None, 1

            def send(d):
                nth[0] += 1
                if state[0] and nth[0] == at:
                    state[0] = False
                    if leave is not None:
                        # a partial send means the kernel buffer is full: the next send would block
                        conn.accept = [max(1, len(d) - leave), 0]
                    else:
                        conn.accept = [len(d) - 1 if inp["acc0"] == -1 else 0]
                return orig(d)
            conn.send = send
        sysm.run()
        mid = None
        if inp["mode"] == "write_block":
            # the application is blocked between two writes: what it has written must already be with the client
            chs = sysm.channels()
            mid = dict(pending=[c.total_outbufs_len for c in chs], wire_len=len(conn.wire()), written=gate.get("written"), spinning=sysm.s.spinning)
            gate["go"] = True
            sysm.s.spinning = False
            sysm.run()
        chans = sysm.channels()
        blocked = sysm.s.blocked()
        waiting_on_watermark = [c for c in chans if len(c.outbuf_lock.waiters) > 0]
        obs = dict(wire=bytes(conn.wire()), calls=list(log), exc=list(sysm.s.thread_exceptions), live=sorted(sysm.s.live()), blocked=sorted(blocked),
                   pending=[c.total_outbufs_len for c in chans], queued=[len(c.requests) for c in chans],
                   waiters=[(c.total_outbufs_len, len(c.outbuf_lock.waiters)) for c in chans],
                   dq=len(sysm.srv.task_dispatcher.queue), pipe_writes=sum(p.writes for p in sysm.osh.pipes),
                   blocked_selects=sysm.sel.blocked_calls, preempt=sysm.s.preempt, closed=conn.closed, spinning=sysm.s.spinning, mid=mid,
                   wire2=bytes(conn2.wire()) if conn2 is not None else None)
    finally:
        sysm.close()
    return obs


def oracle(inp, obs):
    out = [("no thread dies with an exception (%r)" % (obs["exc"],), not obs["exc"]),
           ("I/O loop and worker are alive", "io" in obs["live"] and any(n.startswith("waitress-") for n in obs["live"]))]
    out.append(("the I/O loop does not busy-poll without making progress", not obs["spinning"]))
    if inp["mode"] == "dep":
        f1, _, r1 = C04.split(obs["wire"])
        f2, _, r2 = C04.split(obs["wire2"])
        out.append(("two requests on two connections with two workers are both served although one waits for the other (calls %r)" % (obs["calls"],),
                    len(f1) == 1 and len(f2) == 1 and r1 == b"" and r2 == b""))
        out.append(("no queued request is left unserviced", all(q == 0 for q in obs["queued"]) and obs["dq"] == 0))
        return out
    if obs["mid"] is not None:
        m = obs["mid"]
        # send_bytes is a buffering threshold: less than send_bytes may legitimately wait for more output
        out.append(("while the application is blocked between two writes, what it has written so far is delivered, except for a tail "
                    "shorter than send_bytes (pending %r)" % (m["pending"],),
                    all(bool(p < inp["send_bytes"]) for p in m["pending"])))
        out.append(("the I/O loop does not busy-poll without making progress while the application is blocked", not m["spinning"]))
    finals, interims, rest = C04.split(obs["wire"])
    total = sum(inp["sizes"])
    out.append(("at quiescence (infinite poll timeout) every accepted request has its whole response delivered (%d of %d)" % (len(finals), inp["nreq"]),
                len(finals) == inp["nreq"] and rest == b"" and all(f.endswith(b"".join(bytes([97 + i]) * n for i, n in enumerate(inp["sizes"]))) for f in finals)))
    out.append(("no output is left undelivered on the live connection", all(p == 0 for p in obs["pending"])))
    out.append(("no queued request is left unserviced", all(q == 0 for q in obs["queued"]) and obs["dq"] == 0))
    wm = inp["watermark"]
    for pend, nwait in obs["waiters"]:
        if nwait:
            out.append(("no worker waits for buffer space that is available (pending %d)" % pend, bool(pend > wm)))
    return out


def goals(cin, cobs):
    out = ["poll() implementation" if cin["poll"] else "select() implementation"]
    if cobs["mid"] is not None:
        out.append("application blocked between writes")
    if cin["mode"] == "dep" and len(cobs["calls"]) == 2:
        out.append("long-poll served by the second worker")
    if cobs["pipe_writes"] > cin["nreq"]:
        out.append("producer left output pending and woke the I/O loop")
    if cobs["preempt"]:
        out.append("pre-empted schedule explored")
    if len(cobs["calls"]) == 2:
        out.append("second request chained after the first")
    if sum(cin["sizes"]) > cin["watermark"] and len(cin["sizes"]) > 1:
        out.append("producer paused on the high watermark and was released")
    return out


def normalize(obs):
    return obs


def replay(rep, inputs):
    import harness.C05 as H
    return hsys.replay_with(H, inputs)
