"""C20 Configuration is validated, and CLI and keyword forms are equivalent."""
import os
import re
import socket as _socket

import z3

from harness import common
from wsx import loader
from wsx.core import E, PathAbort, s_and, s_or, sym_equal, mkbool
from wsx.data import SymStr, SymSeq, lift
from wsx.sxbuiltins import sx_int

PROPERTY = "C20"
BUDGET = {"quick": 600, "thorough": 2400}
namespaces = common.namespaces
real_namespace = common.real_namespace
GOALS = ["excluded combination refused", "allowed combination applied", "truthy spelling", "falsy spelling", "cli equals keyword form",
         "cli refused like keyword form", "documented option list matches", "loop settings applied by the MultiSocketServer",
         "loop settings applied by the TcpWSGIServer", "loop settings applied by the UnixWSGIServer"]
ASSUMPTIONS = [
    "socket.getaddrinfo is stubbed: returns one AF_INET stream address for a numeric port, raises gaierror otherwise (its documented contract); "
    "socket objects are stand-ins with symbolic family / type",
    "the cast table is the one documented in docs/arguments.rst: bool = one of t/true/y/yes/on/1 in any letter case with surrounding whitespace "
    "ignored; integer = python int(); perms = octal; list = whitespace/newline separated; url_prefix = stripped, one leading slash, no trailing slash",
    "'documented option list = implemented list' has no quantifier: it is a direct comparison of Adjustments._params with docs/arguments.rst and "
    "the runner help text, done in this check and labelled as such",
]
STUBS = ["socket module inside waitress.adjustments (getaddrinfo stub, fake socket class)", "warnings (ignored)", "WSGI app resolution uses wsgiref.simple_server:demo_app"]
TRUTHY = ("t", "true", "y", "yes", "on", "1")


def BOUNDS(tier):
    n = 4 if tier == "quick" else 5
    return ("EXCL: all 2^5 presence subsets of listen/host/port/sockets/unix_socket x 9 socket lists x 13 trusted-proxy option shapes (incl. mixed-case kinds) x an unknown "
            "option name; CAST: every boolean option spelling of <= %d symbolic characters, integers / octal strings / url_prefix of <= 3-4 symbolic "
            "characters, list values from templates with a symbolic character; CLI: every option of Adjustments._params in both spellings "
            "(--x / --no-x for booleans, --x=v with v empty or symbolic <= 3 characters) against the keyword form; APPLY: asyncore_loop_timeout (symbolic text "
            "of <= 2 characters) and asyncore_use_poll (5 spellings) reach the I/O loop of every kind of server create_server returns (one socket, two, "
            "three, unix); DOC: direct comparison." % n)


# ---------------------------------------------------------------------------------------------- environment
class FakeSock:
    def __init__(self, family, type_):
        self.family = family
        self.type = type_
        self.proto = 0

    def getsockname(self):
        return ("127.0.0.1", 80)


class ListenFake(FakeSock):
    """a listening socket stand-in that create_server can wrap (never accepts)"""

    def __init__(self, family, fd):
        FakeSock.__init__(self, family, _socket.SOCK_STREAM)
        self.fd = fd

    def setblocking(self, f): pass
    def fileno(self): return self.fd
    def getsockopt(self, *a): return 0
    def setsockopt(self, *a): pass
    def bind(self, a): pass
    def listen(self, n): pass
    def getsockname(self): return ("127.0.0.1", 8080) if self.family != 1 else "/tmp/x.sock"
    def accept(self): raise BlockingIOError(11, "EAGAIN")
    def close(self): pass


class SockShim:
    """stands in for the `socket` module inside waitress.adjustments"""

    def __init__(self):
        for k in dir(_socket):
            if k.isupper():
                setattr(self, k, getattr(_socket, k))
        self.socket = FakeSock
        self.gaierror = _socket.gaierror

    def getaddrinfo(self, host, port, family=0, type=0, proto=0, flags=0):
        try:
            p = sx_int(port) if not isinstance(port, int) else port
        except ValueError:
            raise _socket.gaierror(-8, "Servname not supported")
        fam = _socket.AF_INET
        if family == _socket.AF_INET6:
            fam = _socket.AF_INET6
        return [(fam, _socket.SOCK_STREAM, 6, "", (host or "0.0.0.0", p))]


def _adj(ns):
    m = ns.adjustments
    if not isinstance(m.socket, SockShim):
        m.socket = SockShim()
    import warnings
    warnings.simplefilter("ignore")
    return m


def _snapshot(adj_mod, a):
    out = []
    for k, _ in adj_mod.Adjustments._params:
        v = getattr(a, k)
        if k == "sockets":
            v = [(s.family, s.type) for s in v]
        elif isinstance(v, (set, frozenset)):
            v = sorted(v, key=repr)
        out.append((k, v))
    return out


def _construct(adj_mod, kw):
    try:
        a = adj_mod.Adjustments(**kw)
    except ValueError as e:
        return ("ValueError", None)
    except Exception as e:  # noqa
        return ("exception:%s" % type(e).__name__, None)
    return ("ok", _snapshot(adj_mod, a))


# ---------------------------------------------------------------------------------------------- jobs
SOCKLISTS = {"inet": [(2, 1)], "unix": [(1, 1)], "mixed": [(2, 1), (1, 1)], "dgram": [(2, 2)], "inet6": [(10, 1)], "inet6_dgram": [(10, 2)],
             "unix_dgram": [(1, 2)], "inet_and_inet6": [(2, 1), (10, 1)], "good_and_dgram6": [(2, 1), (10, 2)]}
BAD_SOCKLISTS = ("mixed", "dgram", "inet6_dgram", "unix_dgram", "good_and_dgram6")
PROXY = [dict(), dict(trusted_proxy="1.2.3.4"), dict(trusted_proxy_count=2), dict(trusted_proxy_count=0), dict(trusted_proxy_count="0"),
         dict(trusted_proxy_headers="forwarded"), dict(trusted_proxy="1.2.3.4", trusted_proxy_count=0),
         dict(trusted_proxy="1.2.3.4", trusted_proxy_headers="forwarded x-forwarded-for"),
         dict(trusted_proxy="1.2.3.4", trusted_proxy_headers="x-forwarded-for x-bogus"),
         dict(trusted_proxy="1.2.3.4", trusted_proxy_count=3, trusted_proxy_headers="X-Forwarded-For x-forwarded-host"),
         dict(trusted_proxy="1.2.3.4", trusted_proxy_headers="Forwarded X-Forwarded-For"),
         dict(trusted_proxy="1.2.3.4", trusted_proxy_headers="x-forwarded-proto FORWARDED"),
         dict(trusted_proxy="1.2.3.4", trusted_proxy_headers="X-Bogus")]
INT_OPTS = ("port", "threads", "backlog", "recv_bytes", "send_bytes", "outbuf_overflow", "outbuf_high_watermark", "inbuf_overflow",
            "connection_limit", "cleanup_interval", "channel_timeout", "max_request_header_size", "max_request_body_size",
            "asyncore_loop_timeout", "channel_request_lookahead", "trusted_proxy_count")


def _params():
    src = open(os.path.join(loader.SRC, "adjustments.py")).read()
    m = re.search(r"_params = \((.*?)\n    \)", src, re.S)
    return re.findall(r'\("([a-z0-9_]+)", ([a-z_]+)\)', m.group(1))


def jobs(tier):
    js = [dict(name="EXCL:%s" % s, fam="EXCL", socks=s) for s in SOCKLISTS]
    nb = 4 if tier == "quick" else 5
    params = _params()
    bools = [k for k, c in params if c == "asbool"]
    for n in range(0, nb + 1):
        js.append(dict(name="CAST:bool:n%d" % n, fam="CAST", cast="bool", n=n, opts=bools))
    for n in range(1, 4):
        # `port` is rendered back into the listen string (int -> str concretises): kept to <= 2 characters
        js.append(dict(name="CAST:int:n%d" % n, fam="CAST", cast="int", n=n, opts=[k for k, c in params if c == "int" and (n < 3 or k != "port")]))
    for n in range(1, 5):
        js.append(dict(name="CAST:octal:n%d" % n, fam="CAST", cast="octal", n=n))
        js.append(dict(name="CAST:prefix:n%d" % n, fam="CAST", cast="prefix", n=n))
    js.append(dict(name="CAST:list", fam="CAST", cast="list"))
    for k, c in params:
        if k == "sockets":
            continue
        js.append(dict(name="CLI:%s" % k, fam="CLI", opt=k, cast=c))
    js.append(dict(name="DOC", fam="DOC"))
    for kind in SERVER_KINDS:
        js.append(dict(name="APPLY:%s" % kind, fam="APPLY", kind=kind))
    return js


SERVER_KINDS = {"single": [(2, 3)], "multi": [(2, 3), (10, 4)], "three": [(2, 3), (2, 4), (10, 5)], "unix": [(1, 3)]}


def make_inputs(job):
    eng = E()
    fam = job["fam"]
    if fam == "EXCL":
        bits = {k: bool(eng.choose(2, k)) for k in ("listen", "host", "port", "sockets", "unix_socket", "unknown")}
        return dict(fam=fam, bits=bits, socks=job["socks"], proxy=eng.choose(len(PROXY), "proxy"))
    if fam == "CAST":
        cast = job["cast"]
        if cast == "list":
            # sets hash their members: list values are enumerated concretely (separator variants), not symbolic
            seps = (" ", "\t", "\n", "\r\n", "  \n ", ",")
            a = seps[eng.choose(len(seps), "sep1")]
            b = seps[eng.choose(len(seps), "sep2")]
            return dict(fam=fam, cast=cast, value="x-forwarded-for" + a + "X-Forwarded-Host" + b + "x-forwarded-proto", opt="trusted_proxy_headers")
        v = SymStr.fresh(job["n"], "v").simplify() if job["n"] else ""
        if isinstance(v, SymSeq):
            for c in v.c:
                eng.assume(z3.ULE(c, 0xFF))
        opt = {"octal": "unix_socket_perms", "prefix": "url_prefix"}.get(cast)
        if opt is None:
            opts = job["opts"]
            opt = opts[eng.choose(len(opts), "opt")]
        return dict(fam=fam, cast=cast, value=v, opt=opt)
    if fam == "CLI":
        cast = job["cast"]
        if cast == "asbool":
            return dict(fam=fam, opt=job["opt"], cast=cast, value=bool(eng.choose(2, "flag")))
        if job["opt"] == "trusted_proxy_headers":
            v = ("forwarded", "x-forwarded-for x-forwarded-host", "bogus", "Forwarded")[eng.choose(4, "tph")]
            return dict(fam=fam, opt=job["opt"], cast=cast, value=v)
        if job["opt"] in ("listen", "unix_socket", "host", "server_name", "ident", "url_scheme", "trusted_proxy"):
            v = ("127.0.0.1:80", "/tmp/s", "h", "n", "id", "https", "1.2.3.4")[
                ("listen", "unix_socket", "host", "server_name", "ident", "url_scheme", "trusted_proxy").index(job["opt"])]
            pos = eng.choose(len(v) + 1, "pos")
            if pos == len(v):
                return dict(fam=fam, opt=job["opt"], cast=cast, value="")  # --opt= with nothing after the equals sign
            w = SymStr.fresh(1, "w")
            eng.assume(z3.And(z3.UGE(w.c[0], 0x21), z3.ULE(w.c[0], 0x7E)))
            return dict(fam=fam, opt=job["opt"], cast=cast, value=v[:pos] + w + v[pos + 1:])
        n = eng.choose(3 if job["opt"] == "port" else 4, "n")
        if n == 0:
            return dict(fam=fam, opt=job["opt"], cast=cast, value="")
        v = SymStr.fresh(n, "v")
        for c in v.c:
            eng.assume(z3.And(z3.UGE(c, 0x20), z3.ULE(c, 0x7E)))
        return dict(fam=fam, opt=job["opt"], cast=cast, value=v)
    if fam == "APPLY":
        n = 1 + eng.choose(2, "n")
        t = SymStr.fresh(n, "t")
        for c in t.c:
            eng.assume(z3.And(z3.UGE(c, 0x20), z3.ULE(c, 0x7E)))
        poll = ("true", "false", "Yes", "0", "on")[eng.choose(5, "poll")]
        return dict(fam=fam, kind=job["kind"], timeout=t, poll=poll)
    return dict(fam="DOC")


# ---------------------------------------------------------------------------------------------- scenario
def scenario(ns, inp):
    m = _adj(ns)
    fam = inp["fam"]
    if fam == "EXCL":
        kw = {}
        b = inp["bits"]
        if b["listen"]:
            kw["listen"] = "127.0.0.1:8080"
        if b["host"]:
            kw["host"] = "127.0.0.1"
        if b["port"]:
            kw["port"] = 8081
        if b["sockets"]:
            kw["sockets"] = [m.socket.socket(f, t) for f, t in SOCKLISTS[inp["socks"]]]
        if b["unix_socket"]:
            kw["unix_socket"] = "/tmp/x.sock"
        if b["unknown"]:
            kw["no_such_option"] = 1
        kw.update(PROXY[inp["proxy"]])
        return dict(res=_construct(m, kw))
    if fam == "CAST":
        kw = {inp["opt"]: inp["value"]}
        if inp["opt"] in ("trusted_proxy_count", "trusted_proxy_headers"):
            kw["trusted_proxy"] = "1.2.3.4"
        return dict(res=_construct(m, kw))
    if fam == "CLI":
        opt, v = inp["opt"], inp["value"]
        flag = "--" + opt.replace("_", "-")
        if inp["cast"] == "asbool":
            argv = [flag if v else "--no-" + opt.replace("_", "-")]
            kw = {opt: v}
        else:
            argv = [flag + "=" + v]
            kw = {opt: v}
        extra = {}
        if opt in ("trusted_proxy_count", "trusted_proxy_headers", "log_untrusted_proxy_headers"):
            extra["trusted_proxy"] = "1.2.3.4"
            argv.append("--trusted-proxy=1.2.3.4")
        argv.append("wsgiref.simple_server:demo_app")
        try:
            parsed = m.Adjustments.parse_args(argv)
            app = parsed.pop("app")
            parsed.pop("help")
            cli = _construct(m, parsed)
        except Exception as e:  # noqa
            cli = ("parse-exception:%s" % type(e).__name__, None)
        kw.update(extra)
        # the runner path: runner.run passes exactly parse_args' dict to serve()
        captured = {}
        try:
            ns.runner.run(argv=["waitress-serve"] + argv, _serve=lambda app, **k: captured.update(k))
            via_runner = _construct(m, captured)
        except Exception as e:  # noqa
            via_runner = ("parse-exception:%s" % type(e).__name__, None)
        return dict(cli=cli, kwform=_construct(m, kw), runner=via_runner)
    if fam == "APPLY":
        # the settings that the server object itself hands to the I/O loop: asyncore_loop_timeout and asyncore_use_poll, for every kind of server
        # create_server can return (single TCP, multi-socket, unix)
        socks = [ListenFake(famly, fd) for famly, fd in SERVER_KINDS[inp["kind"]]]
        captured = {}

        class Loop:
            @staticmethod
            def loop(*a, **k):
                captured["args"] = a
                captured.update(k)

        class Disp:
            def set_thread_count(self, n): pass
            def shutdown(self, *a, **k): pass
            def add_task(self, t): pass
        try:
            mp = {}
            srv = ns.server.create_server(lambda e, s: [], map=mp, _start=False, _dispatcher=Disp(), sockets=socks,
                                          asyncore_loop_timeout=inp["timeout"], asyncore_use_poll=inp["poll"])
        except ValueError:
            return dict(res="ValueError")
        srv.asyncore = Loop
        srv.run()
        return dict(res="ok", cls=type(srv).__name__, timeout=captured.get("timeout"), use_poll=captured.get("use_poll"), same_map=captured.get("map") is mp,
                    positional=len(captured.get("args", ())))
    # DOC
    params = [k for k, _ in m.Adjustments._params]
    root = os.path.dirname(os.path.dirname(os.path.dirname(os.path.abspath(m.__file__))))
    doc = open(os.path.join(root, "docs", "arguments.rst")).read()
    documented = re.findall(r"^([a-z][a-z0-9_]*)\n {3,4}\S", doc, re.M)
    helptext = ns.runner.HELP
    cli = set(x.replace("-", "_") for x in re.findall(r"^    --(?:\[no-\])?([a-z][a-z0-9-]*)", helptext, re.M)) - {"help", "app", "call"}
    return dict(params=sorted(params), documented=sorted(set(documented)), cli=sorted(cli))


# ---------------------------------------------------------------------------------------------- oracle
def _ws_strip_cells(v):
    return lift(v).strip() if isinstance(v, (str, SymSeq)) and len(v) else v


def _expect_excl(inp):
    b = inp["bits"]
    bad = False
    if b["listen"] and (b["host"] or b["port"]):
        bad = True
    if b["listen"] and b["sockets"]:
        bad = True
    if b["sockets"] and (b["host"] or b["port"]):
        bad = True
    if b["sockets"] and b["unix_socket"]:
        bad = True
    if b["unix_socket"] and (b["host"] or b["port"]):
        bad = True
    if b["unix_socket"] and b["listen"]:
        bad = True
    if b["unknown"]:
        bad = True
    if b["sockets"] and inp["socks"] in BAD_SOCKLISTS:
        bad = True
    p = PROXY[inp["proxy"]]
    if "trusted_proxy" not in p and ("trusted_proxy_count" in p or "trusted_proxy_headers" in p):
        bad = True
    hdrs = set(p.get("trusted_proxy_headers", "").lower().split())
    if "forwarded" in hdrs and len(hdrs) > 1:
        bad = True
    if hdrs - {"x-forwarded-for", "x-forwarded-host", "x-forwarded-proto", "x-forwarded-port", "x-forwarded-by", "forwarded"}:
        bad = True
    return bad


def oracle(inp, obs):
    fam = inp["fam"]
    out = []
    if fam == "EXCL":
        bad = _expect_excl(inp)
        st = obs["res"][0]
        out.append(("a combination the documentation excludes is refused with ValueError, any other is applied (expected refusal=%s, got %s)" % (bad, st),
                    st == ("ValueError" if bad else "ok")))
        if st == "ok":
            snap = dict(obs["res"][1])
            p = PROXY[inp["proxy"]]
            if "trusted_proxy_count" in p:
                out.append(("trusted_proxy_count applied", snap["trusted_proxy_count"] == p["trusted_proxy_count"]))
            if inp["bits"]["unix_socket"]:
                out.append(("unix_socket applied", snap["unix_socket"] == "/tmp/x.sock"))
            if inp["bits"]["sockets"]:
                out.append(("sockets applied", snap["sockets"] == SOCKLISTS[inp["socks"]]))
        return out
    if fam == "CAST":
        st, snap = obs["res"]
        v = inp["value"]
        cast = inp["cast"]
        if cast == "bool":
            s = lift(v).strip().lower() if len(v) else ""
            want = s_or(*[sym_equal(s, t) for t in TRUTHY])
            out.append(("boolean option: accepted", st == "ok"))
            if st == "ok":
                got = dict(snap)[inp["opt"]]
                out.append(("boolean spelling is true exactly for t/true/y/yes/on/1 (any case, surrounding whitespace ignored)", sym_equal(got, want) if not isinstance(want, bool) or not isinstance(got, bool) else got == want))
        elif cast in ("int", "octal"):
            try:
                want = sx_int(v, 8) if cast == "octal" else sx_int(v)
                ok = True
            except ValueError:
                ok = False
            out.append(("integer option: refused with ValueError iff the text is not an integer literal", (st == "ok") == ok if st in ("ok", "ValueError") else False))
            if st == "ok" and ok:
                out.append(("integer option: value applied", sym_equal(dict(snap)[inp["opt"]], want)))
        elif cast == "prefix":
            s = lift(v).strip() if len(v) else ""
            if len(s):
                s2 = lift(s).strip("/") if False else lift(s).lstrip("/").rstrip("/") if len(lift(s).lstrip("/")) else ""
                want = "/" + s2 if len(s2) else "/"
            else:
                want = ""
            out.append(("url_prefix accepted", st == "ok"))
            if st == "ok":
                out.append(("url_prefix is stripped, gets exactly one leading slash and no trailing slash", sym_equal(dict(snap)["url_prefix"], want)))
        elif cast == "list":
            items = set(x.lower() for x in v.split())
            known = {"x-forwarded-for", "x-forwarded-host", "x-forwarded-proto", "x-forwarded-port", "x-forwarded-by", "forwarded"}
            out.append(("a whitespace / newline separated list is split into its elements; unknown kinds are refused",
                        st == ("ok" if items <= known else "ValueError")))
            if st == "ok":
                out.append(("list value applied (lower-cased set)", sorted(dict(snap)["trusted_proxy_headers"]) == sorted(items)))
        return out
    if fam == "CLI":
        cli, kwf, run = obs["cli"], obs["kwform"], obs["runner"]
        out.append(("command-line form and keyword form agree on acceptance (cli=%s keyword=%s)" % (cli[0], kwf[0]),
                    (cli[0] == "ok") == (kwf[0] == "ok")))
        if cli[0] == "ok" and kwf[0] == "ok":
            out.append(("command-line form and keyword form produce identical settings", sym_equal(cli[1], kwf[1])))
        out.append(("the runner passes the same settings on (runner=%s)" % run[0], run[0] == cli[0] and (run[1] is None or bool(sym_equal(run[1], cli[1])))))
        return out
    if fam == "APPLY":
        try:
            want = sx_int(inp["timeout"])
            ok = True
        except ValueError:
            ok = False
        out.append(("asyncore_loop_timeout: refused iff not an integer literal", (obs["res"] == "ok") == ok))
        if obs["res"] == "ok" and ok:
            out.append(("the %s server hands asyncore_loop_timeout to the I/O loop as configured" % obs["cls"], obs["positional"] == 0 and sym_equal(obs["timeout"], want)))
            out.append(("the %s server hands asyncore_use_poll to the I/O loop as configured" % obs["cls"], obs["use_poll"] is (inp["poll"].lower() in TRUTHY)))
            out.append(("the %s server runs the I/O loop on its own socket map" % obs["cls"], obs["same_map"]))
        return out
    out.append(("every implemented adjustment is documented in docs/arguments.rst and vice versa (direct comparison)",
                obs["params"] == obs["documented"]))
    out.append(("every implemented adjustment except 'sockets' has a command-line option in the runner help and vice versa (direct comparison)",
                [p for p in obs["params"] if p != "sockets"] == obs["cli"]))
    return out


def normalize(obs):
    def n(x):
        if isinstance(x, dict):
            return tuple((k, n(v)) for k, v in sorted(x.items()))
        if isinstance(x, (list, tuple)):
            return tuple(n(y) for y in x)
        return x
    return n(obs)


def goals(cin, cobs):
    out = []
    fam = cin["fam"]
    if fam == "EXCL":
        out.append("excluded combination refused" if cobs["res"][0] == "ValueError" else "allowed combination applied")
    if fam == "CAST" and cin["cast"] == "bool" and cobs["res"][0] == "ok":
        out.append("truthy spelling" if dict(cobs["res"][1])[cin["opt"]] else "falsy spelling")
    if fam == "CLI":
        out.append("cli equals keyword form" if cobs["cli"][0] == "ok" else "cli refused like keyword form")
    if fam == "DOC":
        out.append("documented option list matches")
    if fam == "APPLY" and cobs["res"] == "ok":
        out.append("loop settings applied by the %s" % cobs["cls"])
    return out
