"""C08 Applications cannot split or inject into the response head."""
import z3

from harness import common
from wsx.core import E, PathAbort, s_and, s_or, s_not, sym_equal, mkbool
from wsx.data import SymStr, SymBytes, SymSeq, lift

PROPERTY = "C08"
BUDGET = {"quick": 900, "thorough": 2400}
namespaces = common.namespaces
real_namespace = common.real_namespace
HOP = ("connection", "keep-alive", "proxy-authenticate", "proxy-authorization", "te", "trailer", "transfer-encoding", "upgrade")
SERVER_FIELDS = (b"Date", b"Server", b"Via", b"Connection", b"Content-Length", b"Transfer-Encoding")
GOALS = ["well-formed head with the application's fields", "500 for CR/LF", "500 for a hop-by-hop header", "500 for a non-latin-1 character",
         "500 for a non-string", "exc_info re-call before output replaces the headers", "exc_info re-call after output closes the connection"]
ASSUMPTIONS = [
    "symbolic code points range over [U+0000, U+00FF] + {U+2028, U+10000}; in header names U+00B5, U+00DF, U+00FF are excluded (their upper-case "
    "mapping leaves latin-1 or changes the length, which makes the server answer 500 - safe, but not 'case only')",
    "expose_tracebacks is off (tracebacks are C09); the application supplies no Content-Length (C03)",
]
STUBS = ["as C01"]
GOOD = [("X-A", "1")]


def BOUNDS(tier):
    n = 4 if tier == "quick" else 5
    return ("status string fully symbolic (<= %d code points) and 'NNN ' + <= %d symbolic code points; one header with symbolic name (<= %d) or "
            "symbolic value (<= %d); two headers with 1-2 symbolic code points each; every hop-by-hop name with one symbolic character position; "
            "non-str name / value (bytes, int, None); second start_response call with exc_info before and after output; header list mutated after "
            "the call; HTTP/1.0 and HTTP/1.1 requests." % (n, n, n, n))


def jobs(tier):
    nmax = 4 if tier == "quick" else 5
    js = []
    for ver in ("1.1", "1.0"):
        for n in range(0, nmax + 1):
            js.append(dict(name="STATUS:%s:n%d" % (ver, n), fam="STATUS", n=n, ver=ver, prog="plain"))
        for n in range(0, nmax + 1):
            js.append(dict(name="STATUS3:%s:n%d" % (ver, n), fam="STATUS3", n=n, ver=ver, prog="plain"))
    for n in range(0, 3):
        js.append(dict(name="CL:n%d" % n, fam="CL", n=n, ver="1.1", prog="plain"))
    for n in range(0, nmax):
        js.append(dict(name="NAME:filewrap:n%d" % n, fam="NAME", n=n, ver="1.1", prog="filewrap"))
    for fam in ("STATUS", "NAME", "VALUE"):
        for n in range(1, nmax + 1):
            js.append(dict(name="%s:swallow:n%d" % (fam, n), fam=fam, n=n, ver="1.1", prog="swallow"))
    for prog in ("plain", "recall_before", "recall_after", "mutate", "mutate_item"):
        for n in range(0, nmax + 1):
            js.append(dict(name="NAME:%s:n%d" % (prog, n), fam="NAME", n=n, ver="1.1", prog=prog))
            js.append(dict(name="VALUE:%s:n%d" % (prog, n), fam="VALUE", n=n, ver="1.1", prog=prog))
    for a in (1, 2):
        for b in (1, 2):
            js.append(dict(name="TWO:%d:%d" % (a, b), fam="TWO", a=a, b=b, ver="1.1", prog="plain"))
    for h in HOP:
        js.append(dict(name="HOP:%s" % h, fam="HOP", hop=h, ver="1.1", prog="plain"))
    for k in ("bytes", "int", "none"):
        for where in ("name", "value", "status"):
            js.append(dict(name="NONSTR:%s:%s" % (k, where), fam="NONSTR", kind=k, where=where, ver="1.1", prog="plain"))
    return js


def _alpha(eng, s, name_chars=False):
    for c in s.c:
        if isinstance(c, int):
            continue
        ok = z3.Or(z3.ULE(c, 0xFF), c == 0x2028, c == 0x10000)
        if name_chars:
            ok = z3.And(ok, c != 0xB5, c != 0xDF, c != 0xFF)
        eng.assume(ok)


def make_inputs(job):
    eng = E()
    fam = job["fam"]
    status = "200 OK"
    headers = list(GOOD)
    if fam == "STATUS":
        s = SymStr.fresh(job["n"], "st")
        _alpha(eng, s)
        status = s.simplify() if job["n"] else ""
    elif fam == "STATUS3":
        s = SymStr.fresh(job["n"], "st")
        _alpha(eng, s)
        code = ("200", "204", "304", "100", "404")[eng.choose(5, "code")]
        status = code + " " + s if job["n"] else code + " "
    elif fam == "NAME":
        s = SymStr.fresh(job["n"], "hn")
        _alpha(eng, s, True)
        headers = [(s.simplify() if job["n"] else "", "v")]
    elif fam == "VALUE":
        s = SymStr.fresh(job["n"], "hv")
        _alpha(eng, s)
        headers = [("X-B", s.simplify() if job["n"] else "")]
    elif fam == "CL":
        s = SymStr.fresh(job["n"], "cl")
        _alpha(eng, s)
        headers = [("Content-Length", "2" + s if job["n"] else "2")]
    elif fam == "TWO":
        a = SymStr.fresh(job["a"], "ha")
        b = SymStr.fresh(job["b"], "hb")
        _alpha(eng, a, True)
        _alpha(eng, b)
        headers = [("X" + a, "p"), ("X-C", "q" + b)]
    elif fam == "HOP":
        h = job["hop"]
        pos = eng.choose(len(h), "pos")
        w = SymStr.fresh(1, "w")
        _alpha(eng, w, True)
        headers = [(h[:pos] + w + h[pos + 1:], "v")]
    elif fam == "NONSTR":
        bad = {"bytes": b"x", "int": 5, "none": None}[job["kind"]]
        if job["where"] == "name":
            headers = [(bad, "v")]
        elif job["where"] == "value":
            headers = [("X-D", bad)]
        else:
            status = bad
    return dict(status=status, headers=headers, ver=job["ver"], prog=job["prog"], fam=fam)


class App:
    def __init__(self, inp, ns=None):
        self.inp = inp
        self.ns = ns

    def __call__(self, environ, start_response):
        inp = self.inp
        prog = inp["prog"]
        if prog == "plain":
            start_response(inp["status"], list(inp["headers"]))
            return [b"xy"]
        if prog == "swallow":
            # the application catches whatever start_response raises and carries on
            try:
                start_response(inp["status"], list(inp["headers"]))
            except Exception:  # noqa
                pass
            return [b"xy"]
        if prog == "filewrap":
            import io
            from harness import C03
            start_response(inp["status"], [("Content-Length", "9")] + list(inp["headers"]))
            return environ["wsgi.file_wrapper"](C03._make_file(self.ns, b"12345"), 2)
        if prog == "mutate":
            hdrs = list(inp["headers"])
            start_response(inp["status"], hdrs)
            hdrs.append(("X-Late", "evil\r\nInjected: 1"))
            hdrs[0] = ("X-Changed", "1")
            return [b"xy"]
        if prog == "mutate_item":
            # header items given as (mutable) lists and changed after the call
            hdrs = [list(kv) for kv in inp["headers"]]
            start_response(inp["status"], hdrs)
            for kv in hdrs:
                kv[1] = "evil\r\nInjected: 1"
            return [b"xy"]
        if prog == "recall_before":
            start_response("200 OK", [("X-First", "1")])
            try:
                raise ValueError("app error")
            except ValueError:
                import sys
                start_response(inp["status"], list(inp["headers"]), sys.exc_info())
            return [b"xy"]
        if prog == "recall_after":
            def gen():
                import sys
                start_response("200 OK", [("X-First", "1"), ("Content-Length", "4")])
                yield b"ab"
                try:
                    raise ValueError("app error")
                except ValueError:
                    start_response(inp["status"], list(inp["headers"]), sys.exc_info())
                yield b"cd"
            return gen()
        raise AssertionError(prog)


def scenario(ns, inp):
    adj = common.make_adj(ns)
    app = App(inp, ns)
    req = b"GET / HTTP/%s\r\n\r\n" % inp["ver"].encode()
    r = common.drive(ns, adj, app, [req])
    return dict(wire=r["wire"], closing=r["closing"], exc=r["exc"])


# ------------------------------------------------------------------------------------------------ oracle
def _cells(x):
    return lift(x).c if isinstance(x, (str, bytes, SymSeq)) else None


def _has_crlf(x):
    c = _cells(x)
    return s_or(*[mkbool(z3.Or(ch == 13, ch == 10)) if not isinstance(ch, int) else ch in (13, 10) for ch in c])


def _non_latin1(x):
    c = _cells(x)
    return s_or(*[mkbool(z3.UGT(ch, 0xFF)) if not isinstance(ch, int) else ch > 0xFF for ch in c])


def _ci_cell_eq(a, b):
    """equal up to letter case (ASCII and latin-1 letters)"""
    if isinstance(a, int) and isinstance(b, int):
        return chr(a).lower() == chr(b).lower()
    W = SymStr.W
    az = z3.BitVecVal(a, W) if isinstance(a, int) else (a if a.size() == W else z3.ZeroExt(W - a.size(), a))
    bz = z3.BitVecVal(b, W) if isinstance(b, int) else (b if b.size() == W else z3.ZeroExt(W - b.size(), b))

    def low(x):
        up = z3.Or(z3.And(z3.UGE(x, 65), z3.ULE(x, 90)), z3.And(z3.UGE(x, 0xC0), z3.ULE(x, 0xDE), x != 0xD7))
        return z3.If(up, x + 32, x)
    return mkbool(low(az) == low(bz))


def _ci_eq(a_cells, b_cells):
    if len(a_cells) != len(b_cells):
        return False
    return s_and(*[_ci_cell_eq(x, y) for x, y in zip(a_cells, b_cells)])


def _is_hop(name):
    c = _cells(name)
    return s_or(*[_ci_eq(c, [ord(ch) for ch in h]) for h in HOP])


def oracle(inp, obs):
    wire = obs["wire"]
    out = [("no exception escapes", obs["exc"] is None)]
    status, headers, prog = inp["status"], inp["headers"], inp["prog"]
    strs = [status] + [x for kv in headers for x in kv]
    nonstr = any(not isinstance(x, (str, SymStr)) for x in strs)
    bad = nonstr
    if not nonstr:
        bad = s_or(*([_has_crlf(x) for x in strs] + [_non_latin1(x) for x in strs] + [_is_hop(k) for k, _ in headers]))
    bad = bool(bad)  # fork: which of the two outcomes is demanded on this path
    wc = lift(wire) if len(wire) else SymBytes([])
    if prog == "recall_after":
        # output had begun: the connection is closed, nothing of the second call is emitted
        out.append(("after output has begun a re-call with exc_info closes the connection", obs["closing"] is True))
        out.append(("nothing supplied in the second call is emitted", wc.concrete()))
        return out
    if prog == "swallow" and bad:
        # the refused strings must not reach the wire even if the application ignores the refusal: the response is built from
        # the defaults (200 OK, server fields only) or is the server's 500
        p = wire.find(b"\r\n\r\n") if len(wire) else -1
        if p < 0:
            out.append(("a response head is sent", False))
            return out
        lines = wire[:p].split(b"\r\n")
        out.append(("strings refused by start_response never reach the wire: the only CR / LF bytes of the head are the line terminators",
                    s_and(*[s_not(_has_crlf(ln)) for ln in lines])))
        v = inp["ver"].encode()
        out.append(("... the status line is the default or the server's 500",
                    s_or(sym_equal(lines[0], b"HTTP/" + v + b" 200 OK"), sym_equal(lines[0], b"HTTP/" + v + b" 500 Internal Server Error"))))
        for ln in lines[1:]:
            c = ln.find(b":")
            nm = ln[:c] if c >= 0 else ln
            out.append(("... every other head line is a server field (got %r)" % (nm,), any(bool(nm == f) for f in SERVER_FIELDS + (b"Content-Type",))))
        return out
    if inp.get("fam") == "CL" and not bad:
        # a Content-Length that is not a decimal number is outside the quantifier (500 or emitted as is); only line integrity is demanded
        p = wire.find(b"\r\n\r\n") if len(wire) else -1
        if p >= 0:
            out.append(("the only CR / LF bytes of the head are the line terminators", s_and(*[s_not(_has_crlf(ln)) for ln in wire[:p].split(b"\r\n")])))
        return out
    if bad:
        out.append(("offending strings are refused: the response is the server-built 500 and contains nothing application-supplied",
                    wc.concrete() and bytes(wc.c).startswith(b"HTTP/" + inp["ver"].encode() + b" 500 Internal Server Error\r\n")))
        out.append(("the connection is closed after the 500", obs["closing"] is True))
        return out
    p = wire.find(b"\r\n\r\n") if len(wire) else -1
    if p < 0:
        out.append(("a response head is sent", False))
        return out
    head = wire[:p]
    lines = head.split(b"\r\n")
    no_crlf = s_and(*[s_not(_has_crlf(ln)) for ln in lines])
    out.append(("the only CR / LF bytes of the head are the line terminators", no_crlf))
    want0 = ("HTTP/%s " % inp["ver"]) + status
    out.append(("the status line is exactly the application's status", sym_equal(lines[0], want0.encode("latin-1"))))
    rest = list(lines[1:])
    for k, v in headers:
        kc = k.encode("latin-1")
        vc = v.encode("latin-1")
        hit = None
        for i, ln in enumerate(rest):
            lc = lift(ln).c
            nk = len(lift(kc).c)
            if len(lc) != nk + 2 + len(lift(vc).c):
                continue
            cond = s_and(_ci_eq(lc[:nk], lift(kc).c), lc[nk] == 58 if isinstance(lc[nk], int) else mkbool(lc[nk] == 58),
                         lc[nk + 1] == 32 if isinstance(lc[nk + 1], int) else mkbool(lc[nk + 1] == 32),
                         sym_equal(SymBytes(lc[nk + 2:]).simplify(), vc))
            if bool(cond):
                hit = i
                break
        out.append(("every application header field appears as one line 'Name: value' (name equal up to case)", hit is not None))
        if hit is None:
            return out
        rest.pop(hit)
    for ln in rest:
        c = ln.find(b":")
        nm = ln[:c] if c >= 0 else ln
        out.append(("every other head line is one of the server's own fields (got %r)" % (nm,), any(bool(nm == f) for f in SERVER_FIELDS)))
    return out


def normalize(obs):
    return (obs["wire"], obs["closing"], obs["exc"])


def goals(cin, cobs):
    out = []
    w = cobs["wire"]
    strs = [cin["status"]] + [x for kv in cin["headers"] for x in kv]
    if b" 500 Internal" in w[:40]:
        if any(not isinstance(x, str) for x in strs):
            out.append("500 for a non-string")
        else:
            if any(("\r" in x or "\n" in x) for x in strs):
                out.append("500 for CR/LF")
            if any(ord(ch) > 255 for x in strs for ch in x):
                out.append("500 for a non-latin-1 character")
            if any(k.lower() in HOP for k, _ in cin["headers"]):
                out.append("500 for a hop-by-hop header")
    elif cin["prog"] == "recall_before" and b"X-First" not in w:
        out.append("exc_info re-call before output replaces the headers")
    elif cin["prog"] == "recall_after" and cobs["closing"]:
        out.append("exc_info re-call after output closes the connection")
    elif w.startswith(b"HTTP/"):
        out.append("well-formed head with the application's fields")
    return out
