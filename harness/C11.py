"""C11 Nothing is executed after the server has decided to close a connection."""
from harness import common, hsys, C04
from wsx.core import E

PROPERTY = "C11"
BUDGET = {"quick": 900, "thorough": 3000}
namespaces = hsys.namespaces
HEAVY_FIRST = (":P2",)
real_namespace = common.real_namespace
GOALS = ["closing message executed, follower not", "error response closes", "follower arrived in a later read", "follower arrived in the same read",
         "pre-empted schedule explored", "connection closed"]
ASSUMPTIONS = C04.ASSUMPTIONS[:1] + ["the client keeps reading and sends the follower bytes either with the closing message or as a later read"]
STUBS = C04.STUBS
CLOSERS = {
    "CC": b"GET /closing HTTP/1.1\r\nConnection: close\r\n\r\n",
    "H10": b"GET /closing HTTP/1.0\r\n\r\n",
    "E400": b"GET /closing HTTP/1.1\r\nContent-Length: x\r\n\r\n",
    "SHORT": b"GET /short HTTP/1.1\r\n\r\n",
    "CLTE": b"POST /closing HTTP/1.1\r\nContent-Length: 3\r\nTransfer-Encoding: chunked\r\n\r\n0\r\n\r\n",
}
FOLLOW = {
    "complete": b"GET /next HTTP/1.1\r\n\r\n",
    "partial": b"GET /next HTTP/1.1\r\nX: ",
    "garbage": b"\x00\xff garbage \r\n\r\n",
    "two": b"GET /next HTTP/1.1\r\n\r\nGET /next2 HTTP/1.1\r\n\r\n",
    "split": b"GET /next HTTP/1.1\r\nX-Long: 1\r\n\r\n",  # first half arrives with the closing message, the rest later
}


def BOUNDS(tier):
    return ("closing message in %r (Connection: close, HTTP/1.0, refused framing, fewer bytes than the declared Content-Length, CL+TE) preceded by "
            "0..1 ordinary requests and followed by %r, in the same read or a later one; channel_request_lookahead in {0,1}%s; every interleaving "
            "of the I/O thread and %s with at most 1 pre-emption at source-line granularity of channel.py (2 pre-emptions for the follower split "
            "across two reads after %s)." % (
                sorted(CLOSERS), sorted(FOLLOW), " (quick: lookahead 1 for CC / E400 with every follower and for the other closers with complete / split / two; lookahead 0 for CC; 2 and 5 for CC with two / split)" if tier == "quick" else " and {2,5}",
                "one worker" if tier == "quick" else "one or two workers", "Connection: close, lookahead 1, client taking every byte" if tier == "quick" else "CC / H10 / E400, lookahead 1 and 2"))


def jobs(tier):
    js = []
    for c in CLOSERS:
        for f in FOLLOW:
            for la in (0, 1, 2, 5):
                if tier == "quick":
                    # the quick set: lookahead 1 for CC / E400 with every follower and for the other closers with complete / split / two;
                    # lookahead 0 for CC; lookahead 2 and 5 for CC with two / split.  Everything else is in the thorough tier.
                    if la == 0 and c != "CC":
                        continue
                    if la == 1 and c not in ("CC", "E400") and f not in ("complete", "split", "two"):
                        continue
                    if la in (2, 5) and (c != "CC" or f not in ("two", "split")):
                        continue
                js.append(dict(name="%s:%s:la%d" % (c, f, la), closer=c, follow=f, lookahead=la, workers=1, P=1))
    # two pre-emptions for the follower that is split across two reads (the I/O thread is pre-empted between recv() and received(), and again
    # before it tears the connection down): the later read, no leading request
    for c in (("CC",) if tier == "quick" else ("CC", "H10", "E400")):
        for la in ((1,) if tier == "quick" else (1, 2)):
            for acc in ((0,) if tier == "quick" else range(3)):  # quick: the client takes everything; thorough: also would-block / slow client
                js.append(dict(name="%s:split:la%d:P2:acc0=%d" % (c, la, acc), closer=c, follow="split", lookahead=la, workers=1, P=2,
                               force={"lead": 0, "later": 1, "acc0": acc}))
    if tier == "thorough":
        for c in ("CC", "SHORT", "E400"):
            for la in (1, 2):
                js.append(dict(name="%s:two:la%d:w2" % (c, la), closer=c, follow="two", lookahead=la, workers=2, P=1))
    return js


def make_inputs(job):
    eng = E()
    lead = bool(eng.choose(2, "lead"))
    later = bool(eng.choose(2, "later"))
    acc0 = (None, 0, "partial-then-block")[eng.choose(3, "acc0")]
    return dict(closer=job["closer"], follow=job["follow"], lookahead=job["lookahead"], workers=job["workers"], P=job["P"], lead=lead, later=later, acc0=acc0)


def make_app(calls):
    def app(environ, start_response):
        p = environ["PATH_INFO"]
        calls.append(p)
        if p == "/short":
            start_response("200 OK", [("Content-Length", "10")])
            return [b"abc"]
        start_response("200 OK", [("Content-Length", "2")])
        return [b"ok"]
    return app


def scenario(ns, inp):
    calls = []
    sysm = hsys.System(ns, make_app(calls), adj_kw=dict(threads=inp["workers"], channel_request_lookahead=inp["lookahead"]), P=inp["P"])
    try:
        head = (b"GET /lead HTTP/1.1\r\n\r\n" if inp["lead"] else b"") + CLOSERS[inp["closer"]]
        tail = FOLLOW[inp["follow"]]
        if inp["follow"] == "split":
            pieces = [head + tail[:12], tail[12:]] if inp["later"] else [head + tail[:12] + tail[12:]]
        else:
            pieces = [head, tail] if inp["later"] else [head + tail]
        conn = sysm.connect(pieces)
        if inp["acc0"] is not None:
            orig = conn.send
            st = [True]

            def send(d):
                if st[0]:
                    st[0] = False
                    conn.accept = [0] if inp["acc0"] == 0 else [10] + [0] * 6  # a client that reads slowly: the closing response drains over several polls
                return orig(d)
            conn.send = send
        sysm.run()
        obs = dict(calls=list(calls), wire=bytes(conn.wire()), closed=conn.closed, exc=list(sysm.s.thread_exceptions), live=sorted(sysm.s.live()),
                   preempt=sysm.s.preempt, spinning=sysm.s.spinning, inbox_left=sum(len(p) for p in conn.inbox))
    finally:
        sysm.close()
    return obs


def oracle(inp, obs):
    out = [("no thread dies with an exception (%r)" % (obs["exc"],), not obs["exc"]), ("the I/O loop is alive and not busy-polling", "io" in obs["live"] and not obs["spinning"])]
    want = (["/lead"] if inp["lead"] else []) + ({"E400": []}.get(inp["closer"], ["/short" if inp["closer"] == "SHORT" else "/closing"]))
    out.append(("only the requests up to and including the closing message are executed (calls %r, expected %r)" % (obs["calls"], want), obs["calls"] == want))
    out.append(("no request buffered behind or arriving after the close decision reaches the application",
                "/next" not in obs["calls"] and "/next2" not in obs["calls"]))
    out.append(("the connection is closed", obs["closed"] >= 1))
    out.append(("no response is produced for anything after the closing message", obs["wire"].count(b"HTTP/1.") == len(want) + (1 if inp["closer"] == "E400" else 0)))
    return out


def goals(cin, cobs):
    out = []
    if "/next" not in cobs["calls"] and cobs["calls"]:
        out.append("closing message executed, follower not")
    if cin["closer"] == "E400" and b" 400 " in cobs["wire"]:
        out.append("error response closes")
    out.append("follower arrived in a later read" if cin["later"] else "follower arrived in the same read")
    if cobs["preempt"]:
        out.append("pre-empted schedule explored")
    if cobs["closed"]:
        out.append("connection closed")
    return out


def normalize(obs):
    return obs


def replay(rep, inputs):
    import harness.C11 as H
    return hsys.replay_with(H, inputs)
