"""C02 Parsing does not depend on how the byte stream is split across reads."""
from harness import common, framing, streams
from wsx.core import E, sym_equal, s_and
from wsx.data import SymSeq

PROPERTY = "C02"
BUDGET = {"quick": 900, "thorough": 3000}
namespaces = common.namespaces
real_namespace = common.real_namespace
GOALS = ["cut inside a chunk-size line", "cut inside CRLFCRLF", "cut inside a chunk terminator", "cut inside the trailer",
         "cut between pipelined messages", "refused stream under a cut"]
ASSUMPTIONS = [
    "after every read the requests queued so far are serviced before the next read (what the I/O loop does with channel_request_lookahead=0)",
    "the application answers 200 with a fixed body; default size limits (limits x cuts are C06)",
]
STUBS = ["as C01"]
NEAR = 6


def BOUNDS(tier):
    return ("(i) every skeleton of harness/streams.K concretely, every single cut, every pair of cuts, and byte-at-a-time delivery; "
            "(ii) skeleton + 1-byte symbolic window at every position (quick: the %d carry-over skeletons; thorough: all, plus 2-byte windows on them) "
            "with the cut a symbolic position within %d bytes of the window; (iii) all byte strings of length <= %d in each chunked-decoder phase / "
            "header block with a symbolic cut anywhere in or next to the symbolic span, and two symbolic cuts for length <= %d. "
            "Compared: wire bytes, application calls, close decision, pending-request state digest." % (
                len(streams.CARRY), NEAR, 4 if tier == "quick" else 6, 3 if tier == "quick" else 4))


def jobs(tier):
    js = []
    for nm in streams.K:
        # long skeletons: the two-cut pairs (a, b) are spread over four jobs by the quarter a falls into
        parts = 4 if len(streams.K[nm]) > 50 else 1
        for part in range(parts):
            js.append(dict(name="CUT:%s" % nm + (":q%d" % part if parts > 1 else ""), family="CUT", skeleton=nm, part=part, parts=parts))
    names = streams.CARRY if tier == "quick" else list(streams.K)
    for j in streams.f1_jobs(names, 1, per_job=4):
        j["cut"] = "near"
        js.append(j)
    if tier == "thorough":
        for j in streams.f1_jobs(streams.CARRY, 2, per_job=2):
            j["cut"] = "near"
            js.append(j)
    nmax = 4 if tier == "quick" else 6
    for j in streams.f2_jobs(nmax, phases=("chunked_body", "in_chunk", "chunk_term", "trailer", "headers")):
        j["cut"] = "span"
        js.append(j)
    for j in streams.f2_jobs(3 if tier == "quick" else 4, phases=("chunked_body", "chunk_term", "trailer")):
        j["cut"] = "span2"
        j["name"] += ":2cuts"
        js.append(j)
    return js


def make_inputs(job):
    eng = E()
    if job["family"] == "CUT":
        sk = streams.K[job["skeleton"]]
        n = len(sk)
        part, parts = job.get("part", 0), job.get("parts", 1)
        mode = eng.choose(3, "mode") if part == 0 else 1
        if mode == 0:
            c = 1 + eng.choose(n - 1, "cut")
            cuts = [c]
        elif mode == 1:
            lo_a, hi_a = ((n - 1) * part) // parts, ((n - 1) * (part + 1)) // parts
            a = 1 + lo_a + eng.choose(hi_a - lo_a, "cuta")
            b = 1 + eng.choose(n - 1, "cutb")
            eng.assume(a < b)
            cuts = [a, b]
        else:
            cuts = list(range(1, n))
        return {"stream": sk, "cuts": cuts}
    if job["family"] == "F1":
        sk = streams.K[job["skeleton"]]
        positions = job["positions"]
        k = eng.choose(len(positions), "pos")
        pos = positions[k]
        stream = streams.place_window(sk, job["w"], job["mode"], pos)
        n = len(stream)
        lo = max(1, pos - NEAR)
        hi = min(n - 1, pos + job["w"] + NEAR)
        c = lo + eng.choose(hi - lo + 1, "cut")
        return {"stream": stream, "cuts": [c]}
    stream = streams.f2_stream(job)
    pre = len(streams.F2_PREFIX[job["phase"]])
    n = len(stream)
    lo = max(1, pre - 2)
    hi = min(n - 1, pre + job["n"] + 2)
    if job["cut"] == "span2":
        a = lo + eng.choose(hi - lo + 1, "cuta")
        b = lo + eng.choose(hi - lo + 1, "cutb")
        if not a < b:
            from wsx.core import PathAbort
            raise PathAbort()
        return {"stream": stream, "cuts": [a, b]}
    c = lo + eng.choose(hi - lo + 1, "cut")
    return {"stream": stream, "cuts": [c]}


def _digest(r):
    """state of the pending (incomplete) request, liveness-aware: only what can influence later behaviour"""
    ch = r["ch"]
    req = ch.request
    if req is None:
        return None
    d = [req.completed, req.headers_finished, req.header_bytes_received, req.body_bytes_received, req.expect_continue]
    if not req.headers_finished:
        d.append(req.header_plus)
    br = req.body_rcv
    if br is not None:
        d.append(type(br).__name__)
        d.append(br.buf.get(-1) if br.buf.__len__() else b"")
        if hasattr(br, "remain"):
            d.append(br.remain)
        else:
            d.extend([br.chunk_remainder, br.validate_chunk_end, br.control_line, br.chunk_end, br.all_chunks_received, br.trailer])
    return d


def _run(ns, stream, cuts):
    adj = common.make_adj(ns)
    app = common.RecordingApp()
    pieces = []
    last = 0
    for c in cuts:
        pieces.append(stream[last:c])
        last = c
    pieces.append(stream[last:])
    r = common.drive(ns, adj, app, pieces, service="each")
    calls = [(c["method"], c["uri"], c["proto"], [tuple(h) for h in c["headers"]], c["body"]) for c in r["calls"]]
    return dict(wire=r["wire"], calls=calls, closing=r["closing"], pending=r["pending"], exc=r["exc"], digest=_digest(r))


def scenario(ns, inputs):
    whole = _run(ns, inputs["stream"], [])
    cut = _run(ns, inputs["stream"], inputs["cuts"])
    return dict(whole=whole, cut=cut)


def oracle(inputs, obs):
    a, b = obs["whole"], obs["cut"]
    out = [("no exception escapes (cut delivery)", b["exc"] is None and a["exc"] is None)]
    out.append(("bytes sent to the client are the same for both segmentations", sym_equal(a["wire"], b["wire"])))
    out.append(("application calls (method, target, fields, body) are the same for both segmentations", sym_equal(a["calls"], b["calls"])))
    out.append(("close decision is the same for both segmentations", a["closing"] == b["closing"]))
    if not a["closing"] and not b["closing"]:
        # once the connection is closing, a half-parsed request is dead state (received() refuses further input)
        out.append(("pending-request state is the same for both segmentations", a["pending"] == b["pending"]))
        out.append(("state of the incomplete request is the same for both segmentations (inductive step)", sym_equal(a["digest"], b["digest"])))
    return out


def normalize(obs):
    def n(x):
        if isinstance(x, (list, tuple)):
            return tuple(n(y) for y in x)
        if isinstance(x, dict):
            return tuple((k, n(v)) for k, v in sorted(x.items()))
        if isinstance(x, bytearray):
            return bytes(x)
        return x
    return n(obs)


def goals(cin, cobs):
    s = cin["stream"]
    out = []
    for c in cin["cuts"]:
        if s[c - 1:c + 1] == b"\r\n" and s[c - 3:c + 1] == b"\r\n\r\n" or s[c - 2:c + 2] == b"\r\n\r\n" or s[c - 1:c + 3] == b"\r\n\r\n":
            out.append("cut inside CRLFCRLF")
        head_end = s.find(b"\r\n\r\n")
        if b"chunked" in s.lower() and head_end >= 0 and c > head_end + 4:
            body = s[head_end + 4:]
            rel = c - head_end - 4
            if rel < len(body) and body[:rel].count(b"\r\n") == 0:
                out.append("cut inside a chunk-size line")
            if s[c - 1:c + 1] == b"\r\n":
                out.append("cut inside a chunk terminator")
            if b"0\r\n" in body[:rel]:
                out.append("cut inside the trailer")
        if s[c:c + 4] in (b"GET ", b"POST") and c > 0:
            out.append("cut between pipelined messages")
    if b" 400 " in cobs["cut"]["wire"][:40] or b" 501 " in cobs["cut"]["wire"][:40]:
        out.append("refused stream under a cut")
    return out
