"""C04 Pipelined requests: in order, exactly once, never mixed, under every schedule."""
from harness import common, hsys
from wsx import env
from wsx.core import E, PathAbort

PROPERTY = "C04"
BUDGET = {"quick": 900, "thorough": 3000}
namespaces = hsys.namespaces
HEAVY_FIRST = ("PEG:la1", "GPG:la1", "GGC:la1", "PEG", "GPG", "GGC", ":la1:w1", ":la2:w2", "P2sync")
real_namespace = common.real_namespace
GOALS = ["two requests answered in order", "worker chained the next request", "partial send resumed by the I/O thread", "pre-empted schedule explored",
         "connection closed after Connection: close", "interim response in the stream"]
ASSUMPTIONS = [
    "with one worker, channel_request_lookahead >= 1 and the cut at the first message boundary the second read's bytes are sent by a client thread, so their "
    "arrival time is part of the schedule; otherwise both reads are available from the start",
    "interleavings at the granularity of every source line of channel.py, every lock / condition operation and every socket / pipe / select call; "
    "interleavings inside one statement are represented only where an environment call sits inside it",
    "the client keeps reading; the first send() accepts all / 1 / len-1 bytes or would block, the second accepts all or would block",
]
STUBS = ["select / poll, sockets, trigger pipe, clock (simulated, every call a scheduling point)", "threading (cooperative models)", "loggers (captured)"]
KINDS = {
    "G": b"GET /%d HTTP/1.1\r\n\r\n",
    "P": b"POST /%d HTTP/1.1\r\nContent-Length: 3\r\n\r\nabc",
    "E": b"POST /%d HTTP/1.1\r\nExpect: 100-continue\r\nContent-Length: 2\r\n\r\nhi",
    "C": b"GET /%d HTTP/1.1\r\nConnection: close\r\n\r\n",
}
INTERIM = b"HTTP/1.1 100 Continue\r\n\r\n"


def BOUNDS(tier):
    if tier == "quick":
        return ("8 pipelines of 1..2 requests over the kinds %r x (lookahead, workers) in {(0,1),(1,1),(2,2)} (lookahead 1: the pipelines EG, GE; "
                "two workers: EG, and the timed arrival of a second read for GP, GG); one read or two reads cut at the "
                "message boundary / inside the last message; first send() accepts all / len-1 bytes or would block, second all or would block; every "
                "interleaving of I/O thread and workers with at most 1 pre-emption, at source-line granularity with one worker and at the granularity "
                "of lock / condition / socket / pipe / select operations with two workers." % (sorted(KINDS),))
    return ("the quick set plus all pipelines of 1..2 requests and 3 of 3 requests over %r x lookahead {0,1} with one worker (one read or two reads "
            "cut at the message boundary / inside the last message; first send() all / len-1 / would block / stall-then-partial), at most 1 pre-emption "
            "at source-line granularity; and at most 2 pre-emptions at the granularity of lock / condition / socket / pipe / select operations on 3 "
            "pipelines." % (sorted(KINDS),))


def jobs(tier):
    js = []
    kinds = sorted(KINDS)
    if tier == "quick":
        pipes = [["G"], ["G", "P"], ["P", "G"], ["E", "G"], ["G", "E"], ["C", "G"], ["G", "C"], ["P", "E"]]
        for p in (["G", "P"], ["G", "G"]):
            # two workers and the second read arriving at a scheduler-chosen time (single cut at the message boundary, full sends)
            js.append(dict(name="%s:la1:w2:timed" % "".join(p), pipe=p, lookahead=1, workers=2, P=1, gran="sync", rich=False, timed2=True))
        for p in pipes:
            for la, w in ((0, 1), (1, 1), (2, 2)):
                if w == 2 and p != ["E", "G"]:
                    continue  # (GP and GC with two workers: thorough tier; GP / GG with two workers also run as timed jobs above)
                if la == 1 and p not in (["E", "G"], ["G", "E"]):
                    continue  # lookahead 1 at source-line granularity costs ~15 CPU-minutes per pipeline: the other three are in the thorough tier
                js.append(dict(name="%s:la%d:w%d" % ("".join(p), la, w), pipe=p, lookahead=la, workers=w, P=1,
                               gran="line" if w == 1 else "sync", rich=False))
        js = common.shard(js, "acc0", 4, lambda j: not j.get("timed2") and len(j["pipe"]) > 1)
        js = common.shard(js, "acc1", 2, lambda j: not j.get("timed2") and len(j["pipe"]) > 1)
        return js
    js = jobs("quick")
    have = set(":".join(j["name"].split(":")[:3]) for j in js)
    more = []
    pipes = [[a] for a in kinds] + [[a, b] for a in kinds for b in kinds] + [["G", "P", "G"], ["P", "E", "G"], ["G", "G", "C"]]
    for p in pipes:
        for la in (0, 1):
            nm = "%s:la%d:w1" % ("".join(p), la)
            if nm not in have:
                more.append(dict(name=nm, pipe=p, lookahead=la, workers=1, P=1, gran="line", rich=False))
    for p in (["G", "P"], ["G", "C"]):
        more.append(dict(name="%s:la2:w2" % "".join(p), pipe=p, lookahead=2, workers=2, P=1, gran="sync", rich=False))
    # two pre-emptions at the granularity of lock / condition / socket / pipe / select operations only
    for p in (["G", "P"], ["E", "G"], ["G", "C"]):
        more.append(dict(name="%s:la0:w1:P2sync" % "".join(p), pipe=p, lookahead=0, workers=1, P=2, gran="sync", rich=False))
    more = common.shard(more, "acc0", 4, lambda j: len(j["pipe"]) > 1)
    more = common.shard(more, "acc1", 2, lambda j: len(j["pipe"]) > 1)
    more = common.shard(more, "cut", 3, lambda j: len(j["pipe"]) > 2)
    return js + more


def make_inputs(job):
    eng = E()
    reqs = [KINDS[k] % (i + 1) for i, k in enumerate(job["pipe"])]
    data = b"".join(reqs)
    # one read, or two reads cut: inside the first head, at the first message boundary / inside its body, inside the last message
    if job["rich"]:
        spots = sorted(set([0, 9, len(reqs[0]) - 1, len(reqs[0]), len(data) - 2]) - {len(data)})
        b0, b1 = (None, 0, 1, -1), (None, 0)
    else:
        spots = sorted(set([0, len(reqs[0]), len(data) - 2]) - {len(data)})
        b0, b1 = (None, 0, -1, "stall4-partial"), (None, 0)
    if job.get("timed2"):
        return dict(pipe=job["pipe"], lookahead=job["lookahead"], workers=job["workers"], P=job["P"], cut=len(reqs[0]), budgets=[None, None],
                    gran=job["gran"], timed2=True)
    cut = spots[eng.choose(len(spots), "cut")]
    budgets = [b0[eng.choose(len(b0), "acc0")], b1[eng.choose(len(b1), "acc1")]]
    return dict(pipe=job["pipe"], lookahead=job["lookahead"], workers=job["workers"], P=job["P"], cut=cut, budgets=budgets, gran=job["gran"])


def make_app(calls):
    def app(environ, start_response):
        body = environ["wsgi.input"].read()
        calls.append(environ["PATH_INFO"])
        out = b"resp:" + environ["PATH_INFO"].encode() + b":" + body
        start_response("200 OK", [("Content-Length", str(len(out)))])
        return [out]
    return app


def reference(ns, pipe):
    calls = []
    adj = common.make_adj(ns)
    data = b"".join(KINDS[k] % (i + 1) for i, k in enumerate(pipe))
    r = common.drive(ns, adj, make_app(calls), [data])
    return split(bytes(r["wire"])), calls


def split(wire):
    """-> list of final responses (raw bytes), number of interim responses, leftover"""
    out = []
    interims = 0
    while wire:
        if wire.startswith(INTERIM):
            interims += 1
            wire = wire[len(INTERIM):]
            continue
        p = wire.find(b"\r\n\r\n")
        if p < 0:
            break
        head = wire[:p]
        cl = None
        for ln in head.split(b"\r\n")[1:]:
            if ln.lower().startswith(b"content-length:"):
                cl = int(ln.split(b":")[1])
        if cl is None or len(wire) < p + 4 + cl:
            break
        out.append(wire[:p + 4 + cl])
        wire = wire[p + 4 + cl:]
    return out, interims, wire


class Budget:
    """per-send byte budgets: -1 stands for len-1"""

    def __init__(self, items):
        self.items = list(items)

    def __bool__(self):
        return bool(self.items)

    def pop(self, i):
        return self.items.pop(i)


def scenario(ns, inp):
    calls = []
    env.reset_loggers()
    sysm = hsys.System(ns, make_app(calls), adj_kw=dict(threads=inp["workers"], channel_request_lookahead=inp["lookahead"]), P=inp["P"],
                       yield_funcs=None if inp.get("gran", "line") == "line" else set())
    try:
        data = b"".join(KINDS[k] % (i + 1) for i, k in enumerate(inp["pipe"]))
        pieces = [data] if not inp["cut"] else [data[:inp["cut"]], data[inp["cut"]:]]
        timed = inp.get("timed2") or len(pieces) > 1 and inp["lookahead"] >= 1 and inp["workers"] == 1 and inp["cut"] in (len(KINDS[inp["pipe"][0]] % 1), len(data) - 2)
        conn = sysm.connect(pieces[:1] if timed else pieces)
        if timed:
            # the second read's bytes arrive whenever the scheduler lets the client run
            def client():
                from wsx import sched as _s
                _s.yield_point("client.send")
                conn.inbox.append(pieces[1])
            sysm.s.spawn(client, "client")
        orig_send = conn.send
        budgets = list(inp["budgets"])

        def send(d):
            if budgets:
                b = budgets.pop(0)
                if b == "stall4-partial":
                    conn.accept = [0, 0, 0, 0, 50]  # the client does not read while the responses are produced, then takes 50 bytes
                elif b is not None:
                    conn.accept = [len(d) - 1 if b == -1 else b]
            return orig_send(d)

        conn.send = send
        sysm.run()
        ch = sysm.channels()
        swallowed = [m for lvl, m in env.log_records("waitress") if lvl == "exception"]
        obs = dict(wire=bytes(conn.wire()), calls=list(calls), exc=list(sysm.s.thread_exceptions) + swallowed, live=sorted(sysm.s.live()),
                   closed=conn.closed, senders=sorted(set(w for _, w in conn.sent)), preempt=sysm.s.preempt,
                   pending_out=[c.total_outbufs_len for c in ch], queued=[len(c.requests) for c in ch])
    finally:
        sysm.close()
    ref, refcalls = reference(ns, inp["pipe"])
    obs["ref"] = ref[0]
    obs["refcalls"] = refcalls
    return obs


def oracle(inp, obs):
    out = [("no thread dies with an exception and none is swallowed by the worker loop or the event handlers (%r)" % (obs["exc"],), not obs["exc"]),
           ("the I/O loop and the workers are alive at quiescence", "io" in obs["live"] and any(n.startswith("waitress-") for n in obs["live"]))]
    finals, interims, rest = split(obs["wire"])
    out.append(("requests are executed one at a time, in arrival order, each exactly once (calls %r, expected %r)" % (obs["calls"], obs["refcalls"]),
                obs["calls"] == obs["refcalls"]))
    out.append(("the bytes sent are exactly the concatenation of the individual responses in order - nothing duplicated, dropped or interleaved",
                finals == obs["ref"] and rest == b""))
    nexp = sum(1 for k in inp["pipe"] if k == "E")
    out.append(("at most one interim response per expecting request, only between responses", interims <= nexp))
    out.append(("nothing is left undelivered or unserviced at quiescence", all(x == 0 for x in obs["pending_out"]) and all(q == 0 for q in obs["queued"])))
    return out


def goals(cin, cobs):
    out = []
    finals, interims, rest = split(cobs["wire"])
    if len(finals) >= 2:
        out.append("two requests answered in order")
    if len(cobs["calls"]) >= 2:
        out.append("worker chained the next request")
    if "io" in cobs["senders"] and any(b is not None for b in cin["budgets"]):
        out.append("partial send resumed by the I/O thread")
    if cobs["preempt"]:
        out.append("pre-empted schedule explored")
    if "C" in cin["pipe"] and cobs["closed"]:
        out.append("connection closed after Connection: close")
    if interims:
        out.append("interim response in the stream")
    return out


def normalize(obs):
    return obs


def replay(rep, inputs):
    import harness.C04 as H
    return hsys.replay_with(H, inputs)
